#!/bin/bash
# usage: mutant_try.sh <patch file> <property> [tier]   — apply a patch to a scratch worktree of /repo,
# run the property's check against it, clean up.  Exit status = status of the check.
set -u
patch="$(realpath "$1")"; prop="$2"; tier="${3:-quick}"
wt="$(mktemp -d /tmp/verif-wt-XXXXXX)"
rmdir "$wt"
git -C /repo worktree add --detach -q "$wt" HEAD || exit 2
cleanup() { git -C /repo worktree remove --force "$wt" 2>/dev/null; rm -rf "$wt" "/verif/sim/target-$(echo "$(realpath -m "$wt")" | sed 's/[^A-Za-z0-9]/_/g')"; }
trap cleanup EXIT
if ! git -C "$wt" apply "$patch"; then echo "patch does not apply"; exit 2; fi
cd /verif && VERIF_REPO="$wt" VERIF_EVIDENCE_DIR="$wt/.evidence" VERIF_REPLAY_DIR="${VERIF_REPLAY_DIR:-/verif/replays/mutants}" ./check "$prop" "$tier"
