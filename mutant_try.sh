#!/bin/bash
# usage: mutant_try.sh <patch file> <property> [tier]
# Applies a patch to a scratch worktree of /repo (outside /repo and /verif), runs the property's check
# against it (VERIF_REPO), removes the worktree.  Exit status = status of the check.
# MUTANT_SLOT=<n> selects the scratch slot (parallel use needs different slots); the slot's cargo target
# directory (under /tmp, never under /repo or /verif) is kept between calls so that only the engine crate is
# recompiled; MUTANT_CLEAN=1 removes it as well.
set -u
patch="$(realpath "$1")"; prop="$2"; tier="${3:-quick}"
slot="${MUTANT_SLOT:-0}"
wt="/tmp/verif-wt-slot$slot"
tdir="/tmp/verif-target-$(echo "$wt" | sed 's/[^A-Za-z0-9]/_/g')"
git -C /repo worktree remove --force "$wt" 2>/dev/null; rm -rf "$wt"
git -C /repo worktree prune
git -C /repo worktree add --detach -q "$wt" HEAD || exit 2
cleanup() {
  git -C /repo worktree remove --force "$wt" 2>/dev/null; rm -rf "$wt"
  if [ "${MUTANT_CLEAN:-0}" = "1" ]; then rm -rf "$tdir"; fi
}
trap cleanup EXIT
# patches are recorded against the commit they were written for; later add-only hook lines may shift
# their context, so fall back to a fuzzy apply before giving up
if ! git -C "$wt" apply "$patch" 2>/dev/null; then
  if ! (cd "$wt" && patch -p1 -s -F 3 --no-backup-if-mismatch < "$patch"); then echo "patch does not apply"; exit 2; fi
fi
cd /verif && VERIF_REPO="$wt" VERIF_EVIDENCE_DIR="$wt/.evidence" VERIF_REPLAY_DIR="${VERIF_REPLAY_DIR:-/verif/replays/mutants}" ./check "$prop" "$tier"
