#!/usr/bin/env python3
"""Confirm a seeded change delivered by a sub-agent, in ITS scratch worktree (never /repo):

  seeded_confirm.py <worktree> <bug.patch> <demo> [test-filter]

  <demo> is either a patch adding a Rust test (then `cargo test --offline <test-filter>` is the
  demonstration) or a script taking the built binary as argument ($1).
Checks: (a) the existing suite passes with the bug applied, (b) the demonstration FAILS with the
bug, (c) the demonstration PASSES without it.  Prints a JSON record of what was run and seen; exit 0
iff all three hold.  Leaves the worktree clean.
"""
import json
import os
import subprocess
import sys


def sh(cmd, cwd, timeout=1800):
    p = subprocess.run(cmd, cwd=cwd, shell=True, stdout=subprocess.PIPE, stderr=subprocess.STDOUT, text=True, timeout=timeout)
    return p.returncode, p.stdout


def clean(wt):
    sh("git checkout -q -- . && git clean -qfd src", wt)


def main():
    wt, bug, demo = sys.argv[1], os.path.abspath(sys.argv[2]), os.path.abspath(sys.argv[3])
    filt = sys.argv[4] if len(sys.argv) > 4 else ""
    rec = {"worktree": wt, "bug": bug, "demo": demo, "ran": []}
    env_prefix = "CARGO_NET_OFFLINE=true "
    is_patch = demo.endswith(".patch")

    pre_all = os.environ.get("DEMO_PRE_PATCH")  # a demonstration-only hook patch applied before a script demo

    pre_bug = os.environ.get("DEMO_PRE_PATCH_BUG")  # variant of the hook patch that applies on top of the bug

    def demo_run(label):
        pre = pre_all
        if pre_bug and "with the change" in label:
            pre = pre_bug
        if pre:
            rc, out = sh(f"git apply {pre}", wt)
            if rc != 0:
                return None, "hook patch does not apply: " + out[-300:]
            rec["ran"].append({"what": f"{label}: git apply {pre} (demonstration-only hook)"})
        if is_patch:
            rc, out = sh(f"git apply {demo}", wt)
            if rc != 0:
                return None, "demo patch does not apply: " + out[-300:]
            cmd = f"{env_prefix}cargo test --offline {filt} 2>&1 | tail -15"
            rc, out = sh(cmd, wt)
            ok = "test result: ok" in out and " 0 passed" not in out.split("test result: ok")[-1][:40]
            rec["ran"].append({"what": f"{label}: {cmd}", "passed": ok, "tail": out[-500:]})
            return ok, out
        release = os.environ.get("DEMO_RELEASE") == "1"
        rc, out = sh(f"{env_prefix}cargo build --offline {'--release' if release else ''} 2>&1 | tail -3", wt)
        runner = "python3" if demo.endswith(".py") else "bash"
        cmd = f"{runner} {demo} ./target/{'release' if release else 'debug'}/engine " + os.environ.get("DEMO_ARGS", "")
        rc, out = sh(cmd, wt, timeout=900)
        rec["ran"].append({"what": f"{label}: {cmd}", "exit": rc, "tail": out[-500:]})
        return rc == 0, out

    # (c) demonstration on the unmodified tree
    clean(wt)
    c_ok, _ = demo_run("demonstration on unmodified code")
    # (b) demonstration with the bug
    clean(wt)
    rc, out = sh(f"git apply {bug}", wt)
    if rc != 0:
        rec["error"] = "bug patch does not apply: " + out[-300:]
        print(json.dumps(rec, indent=1))
        clean(wt)
        return 2
    b_ok, _ = demo_run("demonstration with the change")
    # (a) existing suite with the bug only
    clean(wt)
    sh(f"git apply {bug}", wt)
    cmd = f"{env_prefix}cargo test --offline 2>&1 | grep -E 'test result|FAILED|panicked' | tail -5"
    rc, out = sh(cmd, wt)
    a_ok = "test result: ok. 181 passed" in out
    rec["ran"].append({"what": f"existing suite with the change: {cmd}", "passed": a_ok, "tail": out[-300:]})
    clean(wt)
    rec["suite_passes_with_change"] = a_ok
    rec["demo_fails_with_change"] = (b_ok is False)
    rec["demo_passes_without_change"] = (c_ok is True)
    rec["confirmed"] = bool(a_ok and b_ok is False and c_ok is True)
    print(json.dumps(rec, indent=1))
    return 0 if rec["confirmed"] else 1


if __name__ == "__main__":
    sys.exit(main())
