#!/usr/bin/env python3
"""seeded_ingest.py <id> <property> <bug.patch> <demo file> <confirm.json> "<needs>" "<what>" [other props to try,comma]
Copies a confirmed seeded change into /verif/seeded/<id>/, runs the property's quick check against it in a scratch
worktree (mutant_try.sh) and records the outcome in meta.json."""
import json, os, shutil, subprocess, sys, time
sid, prop, bug, demo, confirm, needs, what = sys.argv[1:8]
others = sys.argv[8].split(",") if len(sys.argv) > 8 and sys.argv[8] else []
d = os.path.join("/verif/seeded", sid)
os.makedirs(d, exist_ok=True)
shutil.copy(bug, os.path.join(d, "patch.diff"))
shutil.copy(demo, os.path.join(d, "demo" + os.path.splitext(demo)[1] if not demo.endswith(".demo.patch") else os.path.join(d, "demo.patch")))
for extra in os.environ.get("DEMO_EXTRA_FILES", "").split():
    shutil.copy(extra, d)
conf = json.load(open(confirm))
meta = {"id": sid, "property": prop, "what": what, "needs_to_manifest": needs,
        "confirmed_by_me": {k: conf.get(k) for k in ("confirmed", "suite_passes_with_change", "demo_fails_with_change", "demo_passes_without_change")},
        "what_i_ran": [r["what"] for r in conf.get("ran", [])], "checks": {}, "detected_by": []}
for p in [prop] + others:
    t = time.time()
    r = subprocess.run(["/verif/mutant_try.sh", os.path.join(d, "patch.diff"), p, "quick"], stdout=subprocess.PIPE, stderr=subprocess.STDOUT, text=True,
                       env=dict(os.environ, VERIF_REPLAY_DIR=os.path.join(d, "replays")))
    caught = r.returncode == 1 and f"VIOLATION property={p}" in r.stdout
    lines = [l.strip() for l in r.stdout.splitlines() if l.strip().startswith("class=")]
    meta["checks"][p] = {"cmd": f"mutant_try.sh seeded/{sid}/patch.diff {p} quick", "exit": r.returncode, "caught": caught, "first_violation": lines[0][:400] if lines else None,
                         "summary": r.stdout.strip().splitlines()[-1] if r.stdout.strip() else "", "wall_s": round(time.time() - t)}
    if caught:
        meta["detected_by"].append(p)
    print(sid, p, "CAUGHT" if caught else "MISSED", (lines[0][:200] if lines else r.stdout[-300:]))
json.dump(meta, open(os.path.join(d, "meta.json"), "w"), indent=1)
