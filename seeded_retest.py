#!/usr/bin/env python3
"""seeded_retest.py <id> [property ...] — re-run the quick check(s) against /verif/seeded/<id>/patch.diff and update meta.json."""
import json, os, subprocess, sys, time
sid = sys.argv[1]
d = os.path.join("/verif/seeded", sid)
meta = json.load(open(os.path.join(d, "meta.json")))
props = sys.argv[2:] or [meta["property"]]
for p in props:
    t = time.time()
    r = subprocess.run(["/verif/mutant_try.sh", os.path.join(d, "patch.diff"), p, "quick"], stdout=subprocess.PIPE, stderr=subprocess.STDOUT, text=True,
                       env=dict(os.environ, VERIF_REPLAY_DIR=os.path.join(d, "replays")))
    caught = r.returncode == 1 and f"VIOLATION property={p}" in r.stdout
    lines = [l.strip() for l in r.stdout.splitlines() if l.strip().startswith("class=")]
    meta["checks"][p] = {"cmd": f"mutant_try.sh seeded/{sid}/patch.diff {p} quick", "exit": r.returncode, "caught": caught, "first_violation": lines[0][:400] if lines else None,
                         "summary": r.stdout.strip().splitlines()[-1] if r.stdout.strip() else "", "wall_s": round(time.time() - t)}
    if caught and p not in meta["detected_by"]:
        meta["detected_by"].append(p)
    if not caught and p in meta["detected_by"]:
        meta["detected_by"].remove(p)
    print(sid, p, "CAUGHT" if caught else "MISSED", (lines[0][:200] if lines else r.stdout[-300:]))
json.dump(meta, open(os.path.join(d, "meta.json"), "w"), indent=1)
