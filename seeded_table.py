#!/usr/bin/env python3
"""Prints the markdown table of §9.6 of DESIGN.md from /verif/seeded/*/meta.json."""
import glob, json, os
rows = []
for m in sorted(glob.glob("/verif/seeded/*/meta.json")):
    d = json.load(open(m))
    checks = d.get("checks", {})
    det = []
    for p, c in sorted(checks.items()):
        cls = ""
        if c.get("first_violation"):
            cls = c["first_violation"].split()[0].replace("class=", "")
        det.append(f"{p}: {'**caught** (' + cls + ')' if c.get('caught') else 'missed'}")
    rows.append(f"| `{d['id']}` | {d['property']} | {d['what']} | {d['needs_to_manifest']} | {'; '.join(det)} |")
print("| seeded change | breaks | what it does | needs, to manifest | quick checks run against it |")
print("|---|---|---|---|---|")
print("\n".join(rows))
