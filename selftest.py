"""Self-tests of the simulator itself (not property checks).

  ./check selftest determinism [runs-per-property]   every run executed in two different worker partitions
                                                     (16 and 3 processes => different OS processes, ASLR,
                                                     RandomState seeds); per-run digests must be identical
  ./check selftest fidelity                          `bench` inside the simulator visits exactly the node count of the repository's release binary
  ./check selftest mutants [tier]                    every patch under /verif/mutants and /verif/seeded/*/patch.diff
                                                     is applied to a scratch worktree; the check of the property it
                                                     breaks must report a VIOLATION; the unpatched tree must be clean
"""
import json
import os
import shutil
import subprocess
import sys
import time

HERE = os.path.dirname(os.path.abspath(__file__))


def determinism(argv):
    import importlib.machinery
    import importlib.util
    loader = importlib.machinery.SourceFileLoader("check_driver", os.path.join(HERE, "check"))
    spec = importlib.util.spec_from_loader("check_driver", loader)
    chk = importlib.util.module_from_spec(spec)
    loader.exec_module(chk)
    n = int(argv[0]) if argv else 2000
    props = argv[1].split(",") if len(argv) > 1 else sorted(chk.LEVELS)
    bad = 0
    total = 0
    for prop in props:
        for profile in chk.PROFILES[prop]:
            binary, _ = chk.build(profile)
            runs = n if prop not in ("C09",) else max(50, n // 20)
            maps = []
            for jobs in (chk.JOBS, 3):
                wd = os.path.join(chk.WORK_ROOT, f"det-{prop}-{profile}-{jobs}-{os.getpid()}")
                shutil.rmtree(wd, ignore_errors=True)
                summaries, dead = chk.run_workers(binary, prop, "quick", profile, runs, wd, jobs_override=jobs)
                d = {}
                for s in summaries:
                    d.update(s.get("digests", {}))
                maps.append(d)
                shutil.rmtree(wd, ignore_errors=True)
                if dead:
                    print(f"HARNESS-ERROR: worker died during determinism test of {prop}: {dead}")
                    bad += 1
            a, b = maps
            diff = [r for r in a if a[r] != b.get(r)]
            total += len(a)
            print(f"determinism {prop} {profile}: {len(a)} runs x 2 partitions, {len(diff)} differing digests", flush=True)
            if diff or len(a) != len(b):
                bad += 1
                print("  differing runs:", sorted(map(int, diff))[:20])
    try:
        os.rmdir(chk.WORK_ROOT)
    except OSError:
        pass
    print(f"determinism: {total} runs compared, {'FAILED' if bad else 'all identical'}")
    return 1 if bad else 0


def mutants(argv):
    tier = argv[0] if argv else "quick"
    only = argv[1] if len(argv) > 1 else None
    items = []
    mdir = os.path.join(HERE, "mutants")
    index = json.load(open(os.path.join(mdir, "index.json"))) if os.path.exists(os.path.join(mdir, "index.json")) else {}
    for name, props in sorted(index.items()):
        items.append((os.path.join(mdir, name), props))
    sdir = os.path.join(HERE, "seeded")
    if os.path.isdir(sdir):
        for d in sorted(os.listdir(sdir)):
            meta = os.path.join(sdir, d, "meta.json")
            patch = os.path.join(sdir, d, "patch.diff")
            if os.path.exists(meta) and os.path.exists(patch):
                m = json.load(open(meta))
                items.append((patch, m.get("detected_by", [m.get("property")])))
    import concurrent.futures
    import queue
    slots = int(os.environ.get("MUTANT_SLOTS", "3"))
    free = queue.Queue()
    for i in range(slots):
        free.put(i)
    jobs = [(patch, prop) for patch, props in items if not (only and only not in patch) for prop in props]

    def one(job):
        patch, prop = job
        slot = free.get()
        try:
            t = time.time()
            p = subprocess.run([os.path.join(HERE, "mutant_try.sh"), patch, prop, tier], stdout=subprocess.PIPE, stderr=subprocess.STDOUT, text=True,
                               env=dict(os.environ, MUTANT_SLOT=str(slot), VERIF_REPLAY_DIR=f"/tmp/verif-selftest-replays-{slot}"))
            caught = p.returncode == 1 and f"VIOLATION property={prop}" in p.stdout
            first = next((l for l in p.stdout.splitlines() if l.strip().startswith("class=")), "").strip()
            print(f"{'CAUGHT' if caught else 'MISSED'} {os.path.relpath(patch, HERE)} by {prop} {tier} ({time.time() - t:.0f}s) {first[:160]}", flush=True)
            if not caught:
                print("   tail:", p.stdout[-600:].replace("\n", "\n   "), flush=True)
            return {"patch": os.path.relpath(patch, HERE), "property": prop, "caught": caught, "rc": p.returncode}
        finally:
            free.put(slot)

    with concurrent.futures.ThreadPoolExecutor(max_workers=slots) as ex:
        results = list(ex.map(one, jobs))
    missed = sum(1 for r in results if not r["caught"])
    for i in range(slots):
        shutil.rmtree(f"/tmp/verif-selftest-replays-{i}", ignore_errors=True)
        # the scratch build output goes with the scratch worktrees
        shutil.rmtree(f"/tmp/verif-target-_tmp_verif_wt_slot{i}", ignore_errors=True)
    print(f"mutants: {len(results)} (patch, property) pairs, {missed} missed")
    return 1 if missed else 0


def fidelity(argv):
    """The `bench` command inside the simulator must visit exactly as many nodes as the repository's own release
    binary (87 positions, depth 10).  Corroboration of the shadow build, not a property check."""
    import importlib.machinery
    import importlib.util
    import re
    import tempfile
    loader = importlib.machinery.SourceFileLoader("check_driver", os.path.join(HERE, "check"))
    spec = importlib.util.spec_from_loader("check_driver", loader)
    chk = importlib.util.module_from_spec(spec)
    loader.exec_module(chk)
    repo = chk.REPO
    p = subprocess.run(["cargo", "build", "--release", "--offline", "--quiet"], cwd=repo, stdout=subprocess.PIPE, stderr=subprocess.STDOUT, text=True,
                       env=dict(os.environ, CARGO_NET_OFFLINE="true"))
    if p.returncode != 0:
        print(p.stdout[-2000:])
        print("HARNESS-ERROR: cannot build the repository's release binary")
        return 2
    real = subprocess.run([os.path.join(repo, "target/release/engine")], input="bench\nquit\n", stdout=subprocess.PIPE, stderr=subprocess.DEVNULL, text=True, timeout=900).stdout
    m = re.search(r"(\d+) nodes", real)
    real_nodes = int(m.group(1)) if m else None
    binary, _ = chk.build("checked")
    doc = {"property": "C12", "profile": "checked", "seed": 1, "run": 0, "tier": "quick",
           "scenario": {"A": {"script": [{"Raw": "bench"}, "Quit"],
                              "knobs": {"poll_interval": None, "initial_hash_mb": 1, "tau_ps": 250000, "policy": "Uniform", "spurious_permille": 0},
                              "clock_events": [], "sched_seed": 1, "schedule": None}},
           "violation": {"property": "C12", "class": "x", "message": "", "signature": ""}, "log_hash": "", "minimised": False, "note": ""}
    with tempfile.NamedTemporaryFile("w", suffix=".json", delete=False) as f:
        json.dump(doc, f)
        path = f.name
    sim = subprocess.run([binary, "transcript", path], stdout=subprocess.PIPE, stderr=subprocess.DEVNULL, text=True, timeout=1800).stdout
    os.remove(path)
    m = re.search(r"(\d+) nodes", sim)
    sim_nodes = int(m.group(1)) if m else None
    print(f"fidelity: release binary bench = {real_nodes} nodes, simulated engine bench = {sim_nodes} nodes")
    return 0 if real_nodes is not None and real_nodes == sim_nodes else 1


def main(argv):
    if not argv:
        print(__doc__)
        return 2
    if argv[0] == "determinism":
        return determinism(argv[1:])
    if argv[0] == "mutants":
        return mutants(argv[1:])
    if argv[0] == "fidelity":
        return fidelity(argv[1:])
    print(__doc__)
    return 2
