// Generates the crate root of the engine from $VERIF_REPO/src/main.rs (so that crate-root items
// such as ENGINE_NAME / engine_version / init cannot drift) and builds the vendored Fathom prober
// exactly as the repository's own build.rs does.
use std::{env, fs, path::PathBuf};

fn main() {
    let repo = env::var("VERIF_REPO").unwrap_or_else(|_| "/repo".to_string());
    let repo = fs::canonicalize(&repo).expect("VERIF_REPO does not exist");
    let src = repo.join("src");
    println!("cargo:rerun-if-env-changed=VERIF_REPO");
    println!("cargo:rerun-if-changed={}", src.join("main.rs").display());
    println!("cargo:rerun-if-changed={}", repo.join("build.rs").display());

    let main_rs = fs::read_to_string(src.join("main.rs")).expect("cannot read src/main.rs");
    let mut out = String::new();
    let mut saw = (false, false, false);
    for line in main_rs.lines() {
        let t = line.trim();
        if t == "mod chess;" {
            out.push_str(&format!("#[path = \"{}\"]\npub mod chess;\n", src.join("chess/mod.rs").display()));
            saw.0 = true;
        } else if t == "mod engine;" {
            out.push_str(&format!("#[path = \"{}\"]\npub mod engine;\n", src.join("engine/mod.rs").display()));
            saw.1 = true;
        } else if t == "mod utils;" {
            out.push_str("mod __verif_no_utils {}\n");
        } else if t.starts_with("fn main()") {
            out.push_str(&line.replacen("fn main()", "fn __verif_shipped_main()", 1));
            out.push('\n');
            saw.2 = true;
        } else {
            out.push_str(line);
            out.push('\n');
        }
    }
    assert!(saw.0 && saw.1 && saw.2, "src/main.rs no longer has the expected shape (mod chess; mod engine; fn main())");
    let out_dir = PathBuf::from(env::var("OUT_DIR").unwrap());
    fs::write(out_dir.join("engine_root.rs"), out).unwrap();

    // the engine is compiled as its release flavour (no clap CLI), with the verification guard on
    println!("cargo:rustc-cfg=feature=\"release\"");
    println!("cargo:rustc-cfg=jgilchrist_tcheran_verif");
    println!("cargo:rustc-check-cfg=cfg(jgilchrist_tcheran_verif)");

    let fathom = src.join("engine/tablebases/fathom/src");
    println!("cargo:rerun-if-changed={}", fathom.display());
    cc::Build::new()
        .include(&fathom)
        .file(fathom.join("tbprobe.c"))
        .warnings(false)
        .compile("fathom");
}
