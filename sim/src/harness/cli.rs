//! Command line of the simulator binary.  The `check` driver in /verif calls these.
//!
//!   sim work      --property C05 --tier quick --seed 1 --profile checked --from 0 --to 100 --out <prefix>
//!   sim replay    <replay.json>            exit 0 = no violation, 1 = violation reproduced, 2 = harness error
//!   sim minimise  <replay.json> <out.json> [--budget-s N]
//!   sim scenario  --property C05 --tier quick --seed 1 --run 17      print the scenario of one run
//!   sim selfcheck                                                    corpus validation etc.

use super::minimise;
use super::props::{self, Ctx};
use super::report::*;
use super::scenario::*;
use super::worlda;
use serde_json::json;
use std::collections::BTreeMap;
use std::io::{Seek, SeekFrom, Write};
use std::process::ExitCode;

thread_local! {
    static PROGRESS: std::cell::RefCell<Option<(std::fs::File, u64, u64)>> = const { std::cell::RefCell::new(None) };
}

/// Called at the start of every execution: the driver's watchdog only fires when a worker shows no
/// sign of life at all for the per-run time limit (a run may consist of hundreds of executions).
pub fn heartbeat() {
    PROGRESS.with(|p| {
        if let Some((f, run, sub)) = p.borrow_mut().as_mut() {
            *sub += 1;
            let _ = f.seek(SeekFrom::Start(0));
            let _ = write!(f, "{:020} {:010}\n", run, sub);
        }
    });
}

fn arg<'a>(args: &'a [String], name: &str) -> Option<&'a str> {
    args.iter().position(|a| a == name).and_then(|i| args.get(i + 1)).map(|s| s.as_str())
}

pub fn profile_name() -> &'static str {
    if cfg!(debug_assertions) {
        "checked"
    } else {
        "opt"
    }
}

pub fn main() -> ExitCode {
    let args: Vec<String> = std::env::args().collect();
    crate::init();
    worlda::init_panic_capture();
    let bad = super::corpus::validate();
    if !bad.is_empty() {
        errln!("corpus validation failed: {bad:?}");
        return ExitCode::from(2);
    }
    match args.get(1).map(|s| s.as_str()) {
        Some("work") => work(&args),
        Some("replay") => replay(&args),
        Some("minimise") => minimise::main(&args),
        Some("scenario") => scenario(&args),
        Some("transcript") => transcript(&args),
        Some("selfcheck") => {
            outln!("{}", json!({"profile": profile_name(), "corpus": super::corpus::all().len()}));
            ExitCode::SUCCESS
        }
        _ => {
            errln!("usage: sim work|replay|minimise|scenario|selfcheck …");
            ExitCode::from(2)
        }
    }
}

fn ctx_from(args: &[String]) -> Ctx {
    Ctx {
        property: arg(args, "--property").unwrap_or("C05").to_string(),
        tier: arg(args, "--tier").unwrap_or("quick").to_string(),
        seed: arg(args, "--seed").and_then(|s| s.parse().ok()).unwrap_or(1),
        profile: profile_name().to_string(),
    }
}

fn scenario(args: &[String]) -> ExitCode {
    let ctx = ctx_from(args);
    let run: u64 = arg(args, "--run").and_then(|s| s.parse().ok()).unwrap_or(0);
    match props::scenario_of(&ctx, run) {
        Some(sc) => {
            outln!("{}", serde_json::to_string_pretty(&sc).unwrap());
            ExitCode::SUCCESS
        }
        None => ExitCode::from(2),
    }
}

fn work(args: &[String]) -> ExitCode {
    let ctx = ctx_from(args);
    let from: u64 = arg(args, "--from").and_then(|s| s.parse().ok()).unwrap_or(0);
    let to: u64 = arg(args, "--to").and_then(|s| s.parse().ok()).unwrap_or(1);
    let stride: u64 = arg(args, "--stride").and_then(|s| s.parse().ok()).unwrap_or(1);
    let out = arg(args, "--out").unwrap_or("/tmp/sim-work").to_string();
    let deadline_s: f64 = arg(args, "--deadline-s").and_then(|s| s.parse().ok()).unwrap_or(1e12);
    let start = std::time::Instant::now();

    let progress = std::fs::File::create(format!("{out}.progress")).expect("cannot create progress file");
    PROGRESS.with(|p| *p.borrow_mut() = Some((progress, 0, 0)));
    let mut fps: Vec<u8> = Vec::new();
    let mut schs: Vec<u8> = Vec::new();
    let mut agg = Agg::default();
    let mut runs = 0u64;
    let mut evaluations = 0u64;
    let mut violations: BTreeMap<String, (FoundViolation, u64, u64)> = BTreeMap::new();
    let mut others: BTreeMap<String, u64> = BTreeMap::new();
    let mut inconclusive: BTreeMap<String, u64> = BTreeMap::new();
    let mut harness_errors: Vec<String> = Vec::new();
    let mut samples: Vec<serde_json::Value> = Vec::new();
    let mut truncated_at: Option<u64> = None;
    let mut digests: BTreeMap<String, String> = BTreeMap::new();

    let mut run = from;
    while run < to {
        if start.elapsed().as_secs_f64() > deadline_s {
            truncated_at = Some(run);
            break;
        }
        PROGRESS.with(|p| {
            if let Some((_, r, sub)) = p.borrow_mut().as_mut() {
                *r = run;
                *sub = 0;
            }
        });
        heartbeat();
        let rep = props::run_property(&ctx, run);
        runs += 1;
        evaluations += rep.evaluations;
        for (fp, nt) in &rep.fingerprints {
            let v = (fp & !1) | (*nt as u64);
            fps.extend_from_slice(&v.to_le_bytes());
        }
        for h in &rep.schedule_hashes {
            schs.extend_from_slice(&h.to_le_bytes());
        }
        agg.merge(&rep.agg);
        let n_violations = rep.violations.len() as u64;
        for v in rep.violations {
            let key = format!("{}|{}", v.violation.class, v.violation.signature);
            if !violations.contains_key(&key) {
                // written out at once: a worker that is killed later must not take its findings with it
                if let Ok(mut f) = std::fs::OpenOptions::new().create(true).append(true).open(format!("{out}.viol")) {
                    let _ = writeln!(f, "{}", json!({"first_run": run, "count": 1, "found": &v}));
                }
            }
            violations.entry(key).and_modify(|e| e.1 += 1).or_insert((v, 1, run));
        }
        for o in rep.other_observations {
            let k: String = o.chars().take(160).collect();
            *others.entry(k).or_insert(0) += 1;
        }
        for i in rep.inconclusive {
            *inconclusive.entry(i).or_insert(0) += 1;
        }
        for e in rep.harness_errors {
            if harness_errors.len() < 20 {
                harness_errors.push(format!("run {run}: {e}"));
            }
        }
        {
            // digest of everything this run observed: compared across worker partitions / OS processes
            let mut d = rep.digest.unwrap_or(0);
            if !rep.digest_excludes_fingerprints {
                for (fp, _) in &rep.fingerprints {
                    d = (d.rotate_left(11) ^ fp).wrapping_mul(0x9E37_79B9_7F4A_7C15);
                }
            }
            d ^= n_violations;
            digests.insert(run.to_string(), format!("{d:016x}"));
        }
        if let Some(s) = rep.sample {
            if samples.len() < 6 {
                samples.push(json!({"run": run, "case": s}));
            }
        }
        run += stride;
    }
    PROGRESS.with(|p| {
        if let Some((f, _, _)) = p.borrow_mut().as_mut() {
            let _ = f.seek(SeekFrom::Start(0));
            let _ = write!(f, "{:020} {:010}\n", u64::MAX, 0);
        }
    });
    std::fs::write(format!("{out}.fp"), &fps).expect("cannot write fingerprints");
    std::fs::write(format!("{out}.sch"), &schs).expect("cannot write schedule hashes");
    let summary = json!({
        "property": ctx.property,
        "tier": ctx.tier,
        "seed": ctx.seed,
        "profile": ctx.profile,
        "from": from,
        "to": to,
        "stride": stride,
        "runs": runs,
        "evaluations": evaluations,
        "truncated_at": truncated_at,
        "agg": agg,
        "violations": violations.values().map(|(v, n, first)| json!({"first_run": first, "count": n, "found": v})).collect::<Vec<_>>(),
        "other_observations": others,
        "inconclusive": inconclusive,
        "harness_errors": harness_errors,
        "samples": samples,
        "digests": digests,
        "wall_s": start.elapsed().as_secs_f64(),
    });
    std::fs::write(format!("{out}.json"), serde_json::to_string(&summary).unwrap()).expect("cannot write summary");
    ExitCode::SUCCESS
}

fn replay(args: &[String]) -> ExitCode {
    let Some(path) = args.get(2) else {
        errln!("usage: sim replay <file>");
        return ExitCode::from(2);
    };
    let text = match std::fs::read_to_string(path) {
        Ok(t) => t,
        Err(e) => {
            errln!("cannot read {path}: {e}");
            return ExitCode::from(2);
        }
    };
    let file: ReplayFile = match serde_json::from_str(&text) {
        Ok(f) => f,
        Err(e) => {
            errln!("cannot parse {path}: {e}");
            return ExitCode::from(2);
        }
    };
    if file.profile != profile_name() {
        errln!("replay file was recorded with build profile `{}`, this binary is `{}`", file.profile, profile_name());
        return ExitCode::from(2);
    }
    let ctx = Ctx { property: file.property.clone(), tier: file.tier.clone(), seed: file.seed, profile: file.profile.clone() };
    let rep = props::evaluate_scenario(&ctx, &file.scenario);
    if !rep.harness_errors.is_empty() {
        outln!("{}", json!({"result": "harness-error", "errors": rep.harness_errors}));
        return ExitCode::from(2);
    }
    let same: Vec<&FoundViolation> = rep.violations.iter().filter(|v| v.violation.class == file.violation.class).collect();
    if let Some(v) = same.first() {
        let same_fp = v.fingerprint == file.log_hash;
        outln!(
            "{}",
            json!({"result": "violation", "property": file.property, "class": v.violation.class, "message": v.violation.message,
                   "signature": v.violation.signature, "log_hash": v.fingerprint, "log_hash_matches_recorded": same_fp})
        );
        ExitCode::from(1)
    } else {
        outln!(
            "{}",
            json!({"result": "no-violation", "property": file.property, "recorded_class": file.violation.class,
                   "other_classes_seen": rep.violations.iter().map(|v| v.violation.class.clone()).collect::<Vec<_>>()})
        );
        ExitCode::SUCCESS
    }
}

/// `sim transcript <replay.json>`: run a World A scenario and print the engine's output lines.
pub fn transcript(args: &[String]) -> ExitCode {
    let text = std::fs::read_to_string(&args[2]).expect("cannot read");
    let file: ReplayFile = serde_json::from_str(&text).expect("cannot parse");
    if let Scenario::A(sc) = &file.scenario {
        let out = worlda::run_a(sc, false);
        for l in &out.transcript {
            outln!("{l}");
        }
        for f in &out.found {
            outln!("FOUND {}: {}", f.class, f.message);
        }
        return ExitCode::SUCCESS;
    }
    ExitCode::from(2)
}
