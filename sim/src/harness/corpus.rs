//! Position corpus: the 87 bench positions of the engine plus mate-rich endgames, promotion
//! races, fortresses and heavy-material positions.  Every entry is validated at start-up.

pub const BENCH: &[&str] = &[
    "r3k2r/2pb1ppp/2pp1q2/p7/1nP1B3/1P2P3/P2N1PPP/R2QK2R w KQkq a6 0 14",
    "4rrk1/2p1b1p1/p1p3q1/4p3/2P2n1p/1P1NR2P/PB3PP1/3R1QK1 b - - 2 24",
    "r3qbrk/6p1/2b2pPp/p3pP1Q/PpPpP2P/3P1B2/2PB3K/R5R1 w - - 16 42",
    "6k1/1R3p2/6p1/2Bp3p/3P2q1/P7/1P2rQ1K/5R2 b - - 4 44",
    "8/8/1p2k1p1/3p3p/1p1P1P1P/1P2PK2/8/8 w - - 3 54",
    "7r/2p3k1/1p1p1qp1/1P1Bp3/p1P2r1P/P7/4R3/Q4RK1 w - - 0 36",
    "r1bq1rk1/pp2b1pp/n1pp1n2/3P1p2/2P1p3/2N1P2N/PP2BPPP/R1BQ1RK1 b - - 2 10",
    "3r3k/2r4p/1p1b3q/p4P2/P2Pp3/1B2P3/3BQ1RP/6K1 w - - 3 87",
    "2r4r/1p4k1/1Pnp4/3Qb1pq/8/4BpPp/5P2/2RR1BK1 w - - 0 42",
    "4q1bk/6b1/7p/p1p4p/PNPpP2P/KN4P1/3Q4/4R3 b - - 0 37",
    "2q3r1/1r2pk2/pp3pp1/2pP3p/P1Pb1BbP/1P4Q1/R3NPP1/4R1K1 w - - 2 34",
    "1r2r2k/1b4q1/pp5p/2pPp1p1/P3Pn2/1P1B1Q1P/2R3P1/4BR1K b - - 1 37",
    "r3kbbr/pp1n1p1P/3ppnp1/q5N1/1P1pP3/P1N1B3/2P1QP2/R3KB1R b KQkq b3 0 17",
    "8/6pk/2b1Rp2/3r4/1R1B2PP/P5K1/8/2r5 b - - 16 42",
    "1r4k1/4ppb1/2n1b1qp/pB4p1/1n1BP1P1/7P/2PNQPK1/3RN3 w - - 8 29",
    "8/p2B4/PkP5/4p1pK/4Pb1p/5P2/8/8 w - - 29 68",
    "3r4/ppq1ppkp/4bnp1/2pN4/2P1P3/1P4P1/PQ3PBP/R4K2 b - - 2 20",
    "5rr1/4n2k/4q2P/P1P2n2/3B1p2/4pP2/2N1P3/1RR1K2Q w - - 1 49",
    "1r5k/2pq2p1/3p3p/p1pP4/4QP2/PP1R3P/6PK/8 w - - 1 51",
    "q5k1/5ppp/1r3bn1/1B6/P1N2P2/BQ2P1P1/5K1P/8 b - - 2 34",
    "r1b2k1r/5n2/p4q2/1ppn1Pp1/3pp1p1/NP2P3/P1PPBK2/1RQN2R1 w - - 0 22",
    "r1bqk2r/pppp1ppp/5n2/4b3/4P3/P1N5/1PP2PPP/R1BQKB1R w KQkq - 0 5",
    "r1bqr1k1/pp1p1ppp/2p5/8/3N1Q2/P2BB3/1PP2PPP/R3K2n b Q - 1 12",
    "r1bq2k1/p4r1p/1pp2pp1/3p4/1P1B3Q/P2B1N2/2P3PP/4R1K1 b - - 2 19",
    "r4qk1/6r1/1p4p1/2ppBbN1/1p5Q/P7/2P3PP/5RK1 w - - 2 25",
    "r7/6k1/1p6/2pp1p2/7Q/8/p1P2K1P/8 w - - 0 32",
    "r3k2r/ppp1pp1p/2nqb1pn/3p4/4P3/2PP4/PP1NBPPP/R2QK1NR w KQkq - 1 5",
    "3r1rk1/1pp1pn1p/p1n1q1p1/3p4/Q3P3/2P5/PP1NBPPP/4RRK1 w - - 0 12",
    "5rk1/1pp1pn1p/p3Brp1/8/1n6/5N2/PP3PPP/2R2RK1 w - - 2 20",
    "8/1p2pk1p/p1p1r1p1/3n4/8/5R2/PP3PPP/4R1K1 b - - 3 27",
    "8/4pk2/1p1r2p1/p1p4p/Pn5P/3R4/1P3PP1/4RK2 w - - 1 33",
    "8/5k2/1pnrp1p1/p1p4p/P6P/4R1PK/1P3P2/4R3 b - - 1 38",
    "8/8/1p1kp1p1/p1pr1n1p/P6P/1R4P1/1P3PK1/1R6 b - - 15 45",
    "8/8/1p1k2p1/p1prp2p/P2n3P/6P1/1P1R1PK1/4R3 b - - 5 49",
    "8/8/1p4p1/p1p2k1p/P2npP1P/4K1P1/1P6/3R4 w - - 6 54",
    "8/8/1p4p1/p1p2k1p/P2n1P1P/4K1P1/1P6/6R1 b - - 6 59",
    "8/5k2/1p4p1/p1pK3p/P2n1P1P/6P1/1P6/4R3 b - - 14 63",
    "8/1R6/1p1K1kp1/p6p/P1p2P1P/6P1/1Pn5/8 w - - 0 67",
    "1rb1rn1k/p3q1bp/2p3p1/2p1p3/2P1P2N/PP1RQNP1/1B3P2/4R1K1 b - - 4 23",
    "4rrk1/pp1n1pp1/q5p1/P1pP4/2n3P1/7P/1P3PB1/R1BQ1RK1 w - - 3 22",
    "r2qr1k1/pb1nbppp/1pn1p3/2ppP3/3P4/2PB1NN1/PP3PPP/R1BQR1K1 w - - 4 12",
    "2r2k2/8/4P1R1/1p6/8/P4K1N/7b/2B5 b - - 0 55",
    "6k1/5pp1/8/2bKP2P/2P5/p4PNb/B7/8 b - - 1 44",
    "2rqr1k1/1p3p1p/p2p2p1/P1nPb3/2B1P3/5P2/1PQ2NPP/R1R4K w - - 3 25",
    "r1b2rk1/p1q1ppbp/6p1/2Q5/8/4BP2/PPP3PP/2KR1B1R b - - 2 14",
    "6r1/5k2/p1b1r2p/1pB1p1p1/1Pp3PP/2P1R1K1/2P2P2/3R4 w - - 1 36",
    "rnbqkb1r/pppppppp/5n2/8/2PP4/8/PP2PPPP/RNBQKBNR b KQkq c3 0 2",
    "2rr2k1/1p4bp/p1q1p1p1/4Pp1n/2PB4/1PN3P1/P3Q2P/2RR2K1 w - f6 0 20",
    "3br1k1/p1pn3p/1p3n2/5pNq/2P1p3/1PN3PP/P2Q1PB1/4R1K1 w - - 0 23",
    "2r2b2/5p2/5k2/p1r1pP2/P2pB3/1P3P2/K1P3R1/7R w - - 23 93",
    "5k2/4q1p1/3P1pQb/1p1B4/pP5p/P1PR4/5PP1/1K6 b - - 0 38",
    "6k1/6p1/8/6KQ/1r6/q2b4/8/8 w - - 0 32",
    "5rk1/1rP3pp/p4n2/3Pp3/1P2Pq2/2Q4P/P5P1/R3R1K1 b - - 0 32",
    "4r1k1/4r1p1/8/p2R1P1K/5P1P/1QP3q1/1P6/3R4 b - - 0 1",
    "R4r2/4q1k1/2p1bb1p/2n2B1Q/1N2pP2/1r2P3/1P5P/2B2KNR w - - 3 31",
    "r6k/pbR5/1p2qn1p/P2pPr2/4n2Q/1P2RN1P/5PBK/8 w - - 2 31",
    "rn2k3/4r1b1/pp1p1n2/1P1q1p1p/3P4/P3P1RP/1BQN1PR1/1K6 w - - 6 28",
    "3q1k2/3P1rb1/p6r/1p2Rp2/1P5p/P1N2pP1/5B1P/3QRK2 w - - 1 42",
    "4r2k/1p3rbp/2p1N1p1/p3n3/P2NB1nq/1P6/4R1P1/B1Q2RK1 b - - 4 32",
    "4r1k1/1q1r3p/2bPNb2/1p1R3Q/pB3p2/n5P1/6B1/4R1K1 w - - 2 36",
    "3qr2k/1p3rbp/2p3p1/p7/P2pBNn1/1P3n2/6P1/B1Q1RR1K b - - 1 30",
    "3qk1b1/1p4r1/1n4r1/2P1b2B/p3N2p/P2Q3P/8/1R3R1K w - - 2 39",
    "6RR/4bP2/8/8/5r2/3K4/5p2/4k3 w - - 0 1",
    "1n2kb1r/p1P4p/2qb4/5pP1/4n2Q/8/PP1PPP1P/RNB1KBNR w KQk - 0 1",
    "6Q1/8/1kp4P/2q1p3/2PpP3/2nP2P1/p7/5BK1 b - - 1 35",
    "5R2/2k3PK/8/5N2/7P/5q2/8/q7 w - - 0 69",
    "rnbqk1nr/ppp2ppp/8/4P3/1BP5/8/PP2KpPP/RN1Q1BNR b kq - 1 7",
    "8/nRp5/8/8/8/7k/8/7K w - - 0 1",
    "8/bRp5/8/8/8/7k/8/7K w - - 0 1",
    "8/8/4k3/3n1n2/5P2/8/3K4/8 b - - 0 12",
    "8/bQr5/8/8/8/7k/8/7K w - - 0 1",
    "8/nQr5/8/8/8/7k/8/7K w - - 0 1",
    "4kq2/8/n7/8/8/3Q3b/8/3K4 w - - 0 1",
    "8/5R2/1n2RK2/8/8/7k/4r3/8 b - - 0 1",
    "8/n3p3/8/2B5/2b5/7k/P7/7K w - - 0 1",
    "8/n3p3/8/2B5/1n6/7k/P7/7K w - - 0 1",
    "8/bRn5/8/7b/8/7k/8/7K w - - 0 1",
    "1b6/1R1r4/8/1n6/7k/8/8/7K w - - 0 1",
    "8/q5rk/8/8/8/8/Q5RK/7N w - - 0 1",
    "1kr5/2bp3q/Q7/1K6/6q1/6B1/8/8 w - - 0 1",
    "1kr5/2bp3q/R7/1K6/6q1/6B1/8/8 w - - 96 200",
    "rnbqk2r/pppp1ppp/5n2/8/Bb2N3/8/PPPPQPPP/RNB1K2R w KQkq - 2 1",
    "rnb1kb1r/pppp1ppp/5n2/8/4N3/8/PPPP1PPP/RNB1R1K1 w kq - 2 5",
    "rnbqk2r/ppp2ppp/3p4/8/1b2Bn2/8/PPPPQPPP/RNB1K2R w KQkq - 2 5",
    "rnbqk2r/ppp2ppp/3p4/8/1b2B3/3n4/PPPP1PPP/RNBQR1K1 w kq - 2 5",
    "r3k2r/ppp2ppp/n7/1N1p4/Bb6/8/PPPP1PPP/RNBQ1RK1 w kq - 2 1",
    "r3k2r/ppp2ppp/n7/1N1p4/Bb6/8/PPPP1PPP/RNBQ1RK1 w - - 2 1",
];

pub const EXTRA: &[&str] = &[
    "8/6k1/8/2R5/8/1K6/3Q1p2/8 w - - 1 25",
    "6k1/5ppp/8/8/8/8/8/R5K1 w - - 0 1",
    "r1bqkb1r/pppp1ppp/2n2n2/4p2Q/2B1P3/8/PPPP1PPP/RNB1K1NR w KQkq - 4 4",
    "k7/8/1K6/8/8/8/8/6Q1 w - - 0 1",
    "k7/8/2K5/8/8/8/8/7Q w - - 0 1",
    "8/k7/2K5/8/8/8/8/7Q w - - 0 1",
    "k7/8/1K6/8/8/8/8/7R w - - 0 1",
    "1k6/8/2K5/8/8/8/8/7R w - - 0 1",
    "3k4/8/3K4/8/8/8/8/R7 w - - 0 1",
    "4k3/8/4K3/8/8/8/8/R6R w - - 0 1",
    "7k/8/5K2/8/8/8/8/5RR1 w - - 0 1",
    "6k1/8/6K1/8/8/8/8/3Q4 w - - 0 1",
    "5k2/8/5K2/8/8/8/3Q4/8 w - - 0 1",
    "7k/8/5K2/8/8/8/8/6Q1 b - - 0 1",
    "k7/8/1K6/8/8/8/8/6Q1 b - - 0 1",
    "7k/8/6K1/8/8/8/8/R7 b - - 0 1",
    "k7/2K5/8/8/8/8/8/1R6 b - - 0 1",
    "6rk/6pp/7N/8/8/8/8/7K w - - 0 1",
    "6k1/5ppp/8/8/8/8/5PPP/3rR1K1 w - - 0 1",
    "r2qkb1r/pp2nppp/3p4/2pNN1B1/2BnP3/3P4/PPP2PPP/R2bK2R w KQkq - 1 10",
    "1rb4r/pkPp3p/1b1P3n/1Q6/N3Pp2/8/P1P3PP/7K w - - 1 1",
    "4kb1r/p2n1ppp/4q3/4p1B1/4P3/1Q6/PPP2PPP/2KR4 w k - 1 1",
    "r1b2k1r/ppp1bppp/8/1B1Q4/5q2/2P5/PPP2PPP/R3R1K1 w - - 1 1",
    "5rkr/pp2Rp2/1b1p1Pb1/3P2Q1/2n3P1/2p5/P4P2/4R1K1 w - - 1 1",
    "1r1kr3/Nbppn1pp/1b6/8/6Q1/3B1P2/Pq3P1P/3RR1K1 w - - 1 1",
    "r4r1k/1bpq1p1n/p1np4/1p1Bb1BQ/P7/6R1/1P3PPP/1N2R1K1 w - - 1 1",
    "r1bq2r1/b4pk1/p1pp1p2/1p2pP2/1P2P1PB/3P4/1PPQ2P1/R3K2R w - - 0 1",
    "8/5P1k/8/8/8/8/p7/K7 w - - 0 1",
    "8/P7/8/8/8/8/1k5p/4K3 w - - 0 1",
    "8/8/8/8/8/2k5/1p6/1K6 b - - 0 1",
    "k7/P7/1K6/8/8/8/8/8 w - - 0 1",
    "5k2/5P2/5K2/8/8/8/8/8 w - - 0 1",
    "8/8/8/p1p1p1p1/P1P1P1P1/8/4K3/7k w - - 0 1",
    "k7/8/8/8/8/8/8/K6N w - - 0 1",
    "8/8/8/8/8/k7/8/KB6 b - - 10 50",
    "4k3/8/8/8/8/8/8/4K2R w K - 99 80",
    "4k3/8/8/8/8/8/8/4K2R w K - 98 80",
    // castling is available and natural (the hash move is played without a legality test: positions
    // that differ only in their rights must not share entries)
    "r1bqk2r/pppp1ppp/2n2n2/2b1p3/2B1P3/2N2N2/PPPP1PPP/R1BQK2R w KQkq - 6 5",
    "r1bqk2r/pppp1ppp/2n2n2/2b1p3/2B1P3/2NP1N2/PPP2PPP/R1BQK2R b KQkq - 0 5",
    "r3k2r/pppq1ppp/2npbn2/2b1p3/2B1P3/2NPBN2/PPPQ1PPP/R3K2R w KQkq - 4 8",
    "rnbqk2r/pppp1ppp/5n2/2b1p3/2B1P3/5N2/PPPP1PPP/RNBQK2R w KQkq - 4 4",
    "r3k2r/ppp2ppp/2n1bn2/3qp3/3P4/2N1PN2/PP2BPPP/R1BQK2R b KQkq - 2 8",
    "r3k2r/pp1b1ppp/1qn1pn2/2bp4/8/1BNP1N2/PPP1QPPP/R1B1K2R b KQkq - 4 9",
    "r1bqk2r/ppp1bppp/2n2n2/3pp3/4P3/2PP1N2/PP1NBPPP/R1BQK2R b KQkq - 2 6",
    // exactly one legal move (forced-move shortcuts are a classic special case)
    "k7/8/8/8/8/8/5PP1/r5K1 w - - 0 1",
    "4k3/8/8/8/8/8/4q3/4K3 w - - 0 1",
    "7k/5K2/8/8/8/8/8/6R1 b - - 0 1",
    "8/8/8/8/8/5k2/7q/7K w - - 0 1",
    "QQQ5/7k/8/8/8/8/8/K7 w - - 0 1",
    "qqq4K/8/8/8/8/8/8/k7 w - - 0 1",
    "3Q4/1Q4Q1/4Q3/2Q4R/Q4Q2/3Q4/1Q4Rp/1K1BBNNk w - - 0 1",
    "rnbqkbnr/pppppppp/8/8/8/8/PPPPPPPP/RNBQKBNR w KQkq - 0 1",
    "r3k2r/p1ppqpb1/bn2pnp1/3PN3/1p2P3/2N2Q1p/PPPBBPPP/R3K2R w KQkq - 0 1",
    "rnbq1k1r/pp1Pbppp/2p5/8/2B5/8/PPP1NnPP/RNBQK2R w KQ - 1 8",
    "r4rk1/1pp1qppp/p1np1n2/2b1p1B1/2B1P1b1/P1NP1N2/1PP1QPPP/R4RK1 w - - 0 10",
];

pub const STARTPOS: &str = "rnbqkbnr/pppppppp/8/8/8/8/PPPPPPPP/RNBQKBNR w KQkq - 0 1";

/// All corpus positions that parse and have at least one legal move.
pub fn all() -> Vec<&'static str> {
    BENCH.iter().chain(EXTRA.iter()).copied().collect()
}

/// Entries of EXTRA that are mate-rich (mates for or against the side to move within a few plies).
pub fn mate_rich() -> Vec<&'static str> {
    EXTRA.iter().copied().take(27).collect()
}

/// Returns the entries that fail validation (must be empty).
pub fn validate() -> Vec<String> {
    let mut bad = Vec::new();
    for f in all() {
        match crate::chess::game::Game::from_fen(f) {
            Ok(g) => {
                if g.moves().is_empty() {
                    bad.push(format!("{f}: no legal move"));
                }
                if g.board.king_in_check(g.player.other()) {
                    bad.push(format!("{f}: the side that just moved is in check (not a legal position)"));
                }
            }
            Err(e) => bad.push(format!("{f}: {e}")),
        }
    }
    bad
}
