//! Seeded generators shared by the property workloads (swarm style: sizes, mixes, knobs, fault
//! kinds and scheduler policy all vary per run).

use super::corpus;
use super::oracle;
use super::rng::Rng;
use super::scenario::*;
use super::sched::Policy;
use crate::chess::game::Game;

/// A corpus position plus a seeded random playout, kept as FEN + move list so that the game
/// history (repetition detection) is part of what the engine sees.
pub fn gen_position(rng: &mut Rng, mate_rich_bias: bool) -> (Option<String>, Vec<String>) {
    let which = rng.below(100);
    let fen: Option<String> = if mate_rich_bias && which < 60 {
        Some(rng.pick(&corpus::mate_rich()).to_string())
    } else if which < 15 {
        None
    } else if which < 65 {
        Some(rng.pick(corpus::BENCH).to_string())
    } else {
        Some(rng.pick(corpus::EXTRA).to_string())
    };
    let plies = match rng.below(100) {
        0..=44 => 0,
        45..=69 => rng.range(1, 6),
        70..=91 => rng.range(7, 40),
        _ => rng.range(41, 120),
    };
    let moves = playout(fen.as_deref(), plies as usize, rng);
    (fen, moves)
}

/// Random legal playout of up to `plies` plies that never ends in a position without legal moves.
pub fn playout(fen: Option<&str>, plies: usize, rng: &mut Rng) -> Vec<String> {
    let mut g = match fen {
        None => Game::new(),
        Some(f) => Game::from_fen(f).expect("corpus FEN"),
    };
    let mut moves = Vec::new();
    for _ in 0..plies {
        let legal = g.moves();
        if legal.is_empty() {
            break;
        }
        // prefer moves after which the game is not over
        let mut tries = 0;
        loop {
            let mv = legal[rng.below(legal.len() as u64) as usize];
            let mut n = g.clone();
            n.make_move(mv);
            if !n.moves().is_empty() {
                moves.push(oracle::move_str(mv));
                g = n;
                break;
            }
            tries += 1;
            if tries > 8 {
                return moves;
            }
        }
    }
    moves
}

/// The same placement with the colours of all *pawns* exchanged (pieces and side to move kept).  State
/// that is keyed by less than the whole position (pawn squares without colours, …) confuses the two.
/// None if the result is not a legal, non-terminal position.
pub fn pawn_colour_twin(fen: &str) -> Option<String> {
    let mut f: Vec<String> = fen.split_whitespace().map(|s| s.to_string()).collect();
    if f.len() < 4 || !(f[0].contains('P') || f[0].contains('p')) {
        return None;
    }
    f[0] = f[0].chars().map(|c| match c { 'P' => 'p', 'p' => 'P', o => o }).collect();
    f[3] = "-".to_string();
    let twin = f.join(" ");
    let g = Game::from_fen(&twin).ok()?;
    if g.moves().is_empty() || g.board.king_in_check(g.player.other()) {
        return None;
    }
    Some(twin)
}

pub fn gen_poll_interval(rng: &mut Rng) -> Option<u64> {
    match rng.weighted(&[8, 14, 24, 26, 16, 12]) {
        0 => Some(1),
        1 => Some(7),
        2 => Some(50),
        3 => Some(200),
        4 => Some(1000),
        _ => None, // shipped 10 000
    }
}

/// 0.125 … 4 µs per node (8 … 0.25 Mnps), log-uniform-ish
pub fn gen_tau(rng: &mut Rng) -> u64 {
    let base = [125_000u64, 250_000, 500_000, 1_000_000, 2_000_000, 4_000_000];
    let b = *rng.pick(&base);
    // jitter ±25 %
    b * rng.range(75, 125) / 100
}

/// time passing on every clock read: none in a third of the runs, else 100 ns … 2 ms
pub fn gen_read_step(rng: &mut Rng) -> u64 {
    *rng.pick(&[0u64, 0, 0, 100, 10_000, 50_000, 300_000, 1_000_000, 2_000_000])
}

pub fn gen_policy(rng: &mut Rng) -> Policy {
    match rng.weighted(&[40, 15, 15, 10, 20]) {
        0 => Policy::Uniform,
        1 => Policy::Sticky { stay_permille: 500 },
        2 => Policy::Sticky { stay_permille: 900 },
        3 => Policy::Sticky { stay_permille: 990 },
        _ => Policy::Priority { change_permille: rng.range(5, 120) as u32 },
    }
}

pub fn gen_knobs(rng: &mut Rng) -> Knobs {
    Knobs {
        poll_interval: gen_poll_interval(rng),
        initial_hash_mb: Some(*rng.pick(&[1usize, 1, 2, 3, 16])),
        tau_ps: gen_tau(rng),
        policy: gen_policy(rng),
        spurious_permille: *rng.pick(&[0u32, 0, 0, 0, 5, 50]),
        resend_position: true,
        clock_read_step_ns: gen_read_step(rng),
    }
}

/// 0–3 clock faults placed at polls of the first few searches; half of all runs carry none.
pub fn gen_clock_events(rng: &mut Rng, max_search: usize, max_stall_ns: u64) -> Vec<ClockEventS> {
    let mut v = Vec::new();
    if rng.chance(1, 2) || max_search == 0 {
        return v;
    }
    for _ in 0..rng.range(1, 3) {
        let fault = match rng.below(3) {
            0 => ClockFaultS::Stall { ns: rng.range(100_000, max_stall_ns.max(100_001)) },
            1 => ClockFaultS::Jump { ns: rng.range(1_000_000, (max_stall_ns * 4).max(1_000_001)) },
            _ => ClockFaultS::Freeze { polls: rng.range(1, 8) },
        };
        v.push(ClockEventS { search: rng.below(max_search as u64) as usize, poll: rng.range(1, 12), fault });
    }
    v
}

pub fn gen_depth_go(rng: &mut Rng, max_depth: u8) -> GoSpec {
    // shallow depths dominate; the deeper ones cost most
    let d = match rng.below(100) {
        0..=29 => 1,
        30..=54 => 2,
        55..=74 => 3,
        75..=89 => 4,
        _ => rng.range(5, max_depth.max(5) as u64) as u8,
    };
    GoSpec::depth(d.min(max_depth))
}

pub fn gen_clock_go(rng: &mut Rng, white_to_move: bool) -> GoSpec {
    let mut g = GoSpec::default();
    let r = *rng.pick(&[0u64, 1, 5, 10, 50, 99, 100, 150, 199, 200, 201, 500, 1_000, 5_000, 60_000]);
    let other = rng.range(0, 120_000);
    let both = rng.below(10) < 7;
    if white_to_move || both {
        g.wtime = Some(if white_to_move { r } else { other });
    }
    if !white_to_move || both {
        g.btime = Some(if white_to_move { other } else { r });
    }
    if g.wtime.is_none() && g.btime.is_none() {
        g.wtime = Some(r);
    }
    if rng.chance(1, 2) {
        g.winc = Some(*rng.pick(&[0u64, 1, 10, 100, 1_000]));
        g.binc = Some(*rng.pick(&[0u64, 1, 10, 100, 1_000]));
    }
    if rng.chance(1, 3) {
        g.movestogo = Some(*rng.pick(&[1u32, 2, 5, 40, 100]));
    }
    // the opponent may have overstepped: GUIs that do not enforce the flag send a negative clock
    if rng.chance(1, 25) {
        if white_to_move && g.btime.is_some() {
            g.btime = Some(rng.range(1, 5_000));
            g.btime_negative = true;
        } else if !white_to_move && g.wtime.is_some() {
            g.wtime = Some(rng.range(1, 5_000));
            g.wtime_negative = true;
        }
    }
    g
}

pub fn side_to_move_is_white(fen: &Option<String>, moves: &[String]) -> bool {
    let base_white = match fen {
        None => true,
        Some(f) => f.split_whitespace().nth(1) != Some("b"),
    };
    base_white ^ (moves.len() % 2 == 1)
}
