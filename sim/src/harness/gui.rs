//! The GUI model behind the simulated stdin: a seeded *intent script* plus a *conformance wrapper*
//! that enforces exactly the quantifier of C05 (go / ucinewgame / position / setoption only while no
//! bestmove is outstanding; stop and isready at any time; never waits for the bestmove of an
//! un-stopped `go infinite`).  It is not a thread: the engine can only observe a command when its
//! input thread reads it, so the model decides the next line when asked.
//!
//! The same object observes every output line and evaluates the per-line oracles (reply accounting,
//! legality of `bestmove`, the C08 line monitor) while the run proceeds.

use super::oracle::{self, InfoLine, LineMonitor};
use super::scenario::{GoSpec, Intent};
use crate::chess::game::Game;
use crate::verif_seam::{LineSource, Next, SearchRec, SimCore, SimView, WaitFor};
use std::cell::RefCell;
use std::collections::{BTreeMap, VecDeque};
use std::rc::Rc;

#[derive(Clone, Debug)]
pub struct Found {
    pub class: String,
    pub message: String,
    pub signature: String,
}

#[derive(Clone, Debug)]
pub struct GoRecord {
    pub ordinal: usize,
    pub spec: GoSpec,
    pub fen: String,
    pub legal: Vec<String>,
    pub bestmove: Option<String>,
    pub infos: Vec<InfoLine>,
    pub stopped_by_gui: bool,
    /// simulated ns between the `go` line being handed over and `bestmove` being printed
    pub handed_ns: u64,
    pub answered_ns: Option<u64>,
    /// id of the engine-side search record (SearchRec) this go created
    pub search_id: Option<usize>,
    /// Move Overhead the GUI has configured (last value it sent; None = never set)
    pub overhead_ms_configured: Option<u64>,
    /// table size the GUI believes to be in effect: the last `setoption name Hash` that the engine did
    /// not refuse (None = the start-up size)
    pub hash_mb_believed: Option<usize>,
}

pub struct Outstanding {
    pub ordinal: usize,
    pub spec: GoSpec,
    pub stopped: bool,
    pub monitor: LineMonitor,
}

#[derive(Clone, Debug)]
pub struct SpinOption {
    pub name: String,
    pub default: i64,
    pub min: i64,
    pub max: i64,
}

pub struct GuiState {
    pub script: Vec<Intent>,
    pub pc: usize,
    pub pending: VecDeque<String>,
    // the position the GUI believes the engine has
    pub fen: Option<String>,
    pub moves: Vec<String>,
    pub game: Game,
    /// a `ucinewgame` went out and no `position` since: the wrapper re-sends the position before
    /// the next `go`, as every GUI does (what the engine does with its own copy is its business)
    pub position_stale: bool,
    pub resend_position: bool,
    pub outstanding: Option<Outstanding>,
    pub gos: Vec<GoRecord>,
    pub isready_sent: u64,
    pub readyok_seen: u64,
    pub bestmoves_seen: u64,
    pub quit_sent: bool,
    pub eof_sent: bool,
    pub found: Vec<Found>,
    pub spin_options: Vec<SpinOption>,
    pub option_lines: u64,
    pub uciok_seen: bool,
    /// lines of stdout (transcript for C12)
    pub transcript: Vec<String>,
    pub stderr_lines: Vec<String>,
    pub probes: BTreeMap<&'static str, u64>,
    /// setoption that the engine refused because a search thread still held the tables
    pub refused_setoptions: u64,
    pub last_setoption: Option<(String, String)>,
    pub overhead_ms_configured: Option<u64>,
    pub hash_mb_believed: Option<usize>,
    /// a Hash value was sent and the engine has not (yet) refused it: (value, refusals seen before it)
    hash_pending: Option<(usize, u64)>,
    pub exited: bool,
    pub max_info_lines_kept: usize,
    /// number of engine-side searches already attributed to a go
    searches_seen: usize,
}

fn probe(p: &mut BTreeMap<&'static str, u64>, k: &'static str) {
    *p.entry(k).or_insert(0) += 1;
}

impl GuiState {
    pub fn new(script: Vec<Intent>) -> Self {
        GuiState {
            script,
            pc: 0,
            pending: VecDeque::new(),
            fen: None,
            moves: Vec::new(),
            game: Game::new(),
            position_stale: false,
            resend_position: true,
            outstanding: None,
            gos: Vec::new(),
            isready_sent: 0,
            readyok_seen: 0,
            bestmoves_seen: 0,
            quit_sent: false,
            eof_sent: false,
            found: Vec::new(),
            spin_options: Vec::new(),
            option_lines: 0,
            uciok_seen: false,
            transcript: Vec::new(),
            stderr_lines: Vec::new(),
            probes: BTreeMap::new(),
            refused_setoptions: 0,
            last_setoption: None,
            overhead_ms_configured: None,
            hash_mb_believed: None,
            hash_pending: None,
            exited: false,
            max_info_lines_kept: 64,
            searches_seen: 0,
        }
    }

    fn violation(&mut self, class: &str, message: String, signature: String) {
        // keep the first occurrence of each class per run; later ones are consequences
        if self.found.iter().any(|f| f.class == class) {
            return;
        }
        self.found.push(Found { class: class.to_string(), message, signature });
    }

    fn position_line(&self) -> String {
        let mut s = match &self.fen {
            None => "position startpos".to_string(),
            Some(f) => format!("position fen {f}"),
        };
        if !self.moves.is_empty() {
            s += " moves ";
            s += &self.moves.join(" ");
        }
        s
    }

    /// Decide what the input thread reads next.
    fn note_option(&mut self, name: &str, value: &str) {
        if name == "Move Overhead" {
            self.overhead_ms_configured = value.parse().ok();
        } else if name == "Hash" {
            if let Ok(v) = value.parse::<usize>() {
                self.hash_pending = Some((v, self.refused_setoptions));
            }
        }
    }

    fn decide(&mut self, core: &mut SimCore<'_>) -> Next {
        // the engine answers a refused Hash change before it reads the next line
        if let Some((v, refused_before)) = self.hash_pending.take() {
            if self.refused_setoptions == refused_before {
                self.hash_mb_believed = Some(v);
            }
        }
        loop {
            if let Some(l) = self.pending.pop_front() {
                return self.hand_over(l, core);
            }
            if self.pc >= self.script.len() {
                self.eof_sent = true;
                return Next::Eof;
            }
            let intent = self.script[self.pc].clone();
            let needs_idle = matches!(
                intent,
                Intent::Go(_) | Intent::UciNewGame | Intent::Position { .. } | Intent::PlayBest | Intent::SetOption { .. } | Intent::SetSpin { .. } | Intent::Raw(_)
            );
            if needs_idle {
                if let Some(o) = &mut self.outstanding {
                    if !o.stopped && !o.spec.self_terminating() {
                        // the GUI has to stop an infinite search before it may send this command
                        o.stopped = true;
                        probe(&mut self.probes, "wrapper_inserted_stop");
                        return self.hand_over("stop".to_string(), core);
                    }
                    probe(&mut self.probes, "gui_waited_for_bestmove");
                    return Next::Wait(WaitFor { bestmove: true, polls: None });
                }
            }
            match intent {
                Intent::WaitBestmove => {
                    if let Some(o) = &self.outstanding {
                        if o.stopped || o.spec.self_terminating() {
                            probe(&mut self.probes, "gui_waited_for_bestmove");
                            return Next::Wait(WaitFor { bestmove: true, polls: None });
                        }
                    }
                    self.pc += 1;
                }
                Intent::WaitPolls(n) => {
                    if let Some(o) = &self.outstanding {
                        // the engine-side record of the outstanding go is the latest one
                        let sid = core.searches.len().wrapping_sub(1);
                        if let Some(r) = core.searches.get(sid) {
                            if self.gos.len() == core.searches.len() && r.polls < n && !r.finished {
                                let _ = o;
                                probe(&mut self.probes, "gui_waited_for_polls");
                                return Next::Wait(WaitFor { bestmove: true, polls: Some((sid, n)) });
                            }
                        }
                    }
                    self.pc += 1;
                }
                Intent::Uci => {
                    self.pc += 1;
                    return self.hand_over("uci".to_string(), core);
                }
                Intent::IsReady => {
                    self.pc += 1;
                    return self.hand_over("isready".to_string(), core);
                }
                Intent::Raw(l) | Intent::RawNow(l) => {
                    self.pc += 1;
                    return self.hand_over(l, core);
                }
                Intent::UciNewGame => {
                    self.pc += 1;
                    if self.resend_position {
                        self.position_stale = true;
                    } else {
                        // a new game starts from the start position, exactly as in a fresh engine
                        self.fen = None;
                        self.moves.clear();
                        self.game = Game::new();
                    }
                    return self.hand_over("ucinewgame".to_string(), core);
                }
                Intent::Position { fen, moves } => {
                    self.pc += 1;
                    match oracle::build_position(fen.as_deref(), &moves) {
                        Ok(g) => {
                            self.fen = fen;
                            self.moves = moves;
                            self.game = g;
                            self.position_stale = false;
                            let l = self.position_line();
                            return self.hand_over(l, core);
                        }
                        Err(_) => {
                            // a script step that does not describe a legal game is skipped (can only
                            // arise while a replay file is being minimised)
                            probe(&mut self.probes, "skipped_unbuildable_position");
                        }
                    }
                }
                Intent::PlayBest => {
                    self.pc += 1;
                    let last = self.gos.iter().rev().find(|g| g.bestmove.is_some()).cloned();
                    if let Some(g) = last {
                        let bm = g.bestmove.unwrap();
                        // only if the game is still the one that was searched
                        if g.fen == self.game.to_fen() {
                            if let Some(mv) = oracle::find_move(&self.game, &bm) {
                                let mut next = self.game.clone();
                                next.make_move(mv);
                                if !next.moves().is_empty() {
                                    self.game = next;
                                    self.moves.push(bm);
                                    self.position_stale = false;
                                    let l = self.position_line();
                                    probe(&mut self.probes, "played_engine_move");
                                    return self.hand_over(l, core);
                                }
                            }
                        }
                    }
                }
                Intent::SetOption { name, value } => {
                    self.pc += 1;
                    self.last_setoption = Some((name.clone(), value.clone()));
                    self.note_option(&name, &value);
                    return self.hand_over(format!("setoption name {name} value {value}"), core);
                }
                Intent::SetSpin { name, pick } => {
                    self.pc += 1;
                    // "#k" = the k-th spin option the engine advertised, whatever it is called
                    let by_index = name.strip_prefix('#').and_then(|k| k.parse::<usize>().ok());
                    let opt = match by_index {
                        Some(k) if !self.spin_options.is_empty() => Some(self.spin_options[k % self.spin_options.len()].clone()),
                        Some(_) => None,
                        None => self.spin_options.iter().find(|o| o.name == name).cloned(),
                    };
                    if let Some(opt) = opt {
                        let name = opt.name.clone();
                        let v = pick.resolve(opt.min, opt.max, opt.default);
                        self.last_setoption = Some((name.clone(), v.to_string()));
                        self.note_option(&name, &v.to_string());
                        probe(&mut self.probes, "setoption_from_advertised_range");
                        return self.hand_over(format!("setoption name {name} value {v}"), core);
                    }
                    probe(&mut self.probes, "setspin_skipped_not_advertised");
                }
                Intent::Go(spec) => {
                    if self.position_stale {
                        self.position_stale = false;
                        let l = self.position_line();
                        probe(&mut self.probes, "wrapper_resent_position_after_newgame");
                        return self.hand_over(l, core);
                    }
                    self.pc += 1;
                    if self.game.moves().is_empty() {
                        probe(&mut self.probes, "go_skipped_terminal_position");
                        continue;
                    }
                    let ordinal = self.gos.len();
                    let depth_limit = spec.depth;
                    self.outstanding = Some(Outstanding {
                        ordinal,
                        spec: spec.clone(),
                        stopped: false,
                        monitor: LineMonitor::new(self.game.clone(), depth_limit).with_root_legal(oracle::legal_move_strs_checked(&self.game, self.fen.as_deref(), &self.moves)),
                    });
                    self.gos.push(GoRecord {
                        ordinal,
                        spec: spec.clone(),
                        fen: self.game.to_fen(),
                        legal: oracle::legal_move_strs_checked(&self.game, self.fen.as_deref(), &self.moves),
                        bestmove: None,
                        infos: Vec::new(),
                        stopped_by_gui: false,
                        handed_ns: core.now_ns,
                        answered_ns: None,
                        search_id: None,
                        overhead_ms_configured: self.overhead_ms_configured,
                        hash_mb_believed: self.hash_mb_believed,
                    });
                    // the limit the GUI puts on this search: movetime, or the mover's remaining clock
                    let white = self.game.player == crate::chess::player::Player::White;
                    let limit_ms = if spec.wtime.is_some() || spec.btime.is_some() {
                        Some((if white { spec.wtime } else { spec.btime }.unwrap_or(0), true))
                    } else {
                        spec.movetime.map(|m| (m, false))
                    };
                    *core.next_caller_limit_ns = limit_ms.map(|(ms, c)| (ms.saturating_mul(1_000_000), c));
                    return self.hand_over(spec.line(), core);
                }
                Intent::Stop => {
                    self.pc += 1;
                    if let Some(o) = &mut self.outstanding {
                        if !o.stopped {
                            o.stopped = true;
                        }
                        probe(&mut self.probes, "stop_while_search_outstanding");
                    } else {
                        probe(&mut self.probes, "stop_with_nothing_outstanding");
                    }
                    return self.hand_over("stop".to_string(), core);
                }
                Intent::Quit => {
                    self.pc += 1;
                    self.quit_sent = true;
                    if self.outstanding.is_some() {
                        probe(&mut self.probes, "quit_while_search_outstanding");
                    }
                    return self.hand_over("quit".to_string(), core);
                }
            }
        }
    }

    fn hand_over(&mut self, line: String, core: &mut SimCore<'_>) -> Next {
        if line == "isready" {
            self.isready_sent += 1;
        }
        if line == "stop" {
            core.faults.stop_lines += 1;
            if let Some(o) = &self.outstanding {
                let ord = o.ordinal;
                self.gos[ord].stopped_by_gui = true;
                // liveness clock of the running search starts now
                let in_sync = self.gos.len() == core.searches.len();
                if let Some(r) = core.searches.last_mut() {
                    if in_sync && !r.finished && r.stop_handed_at_poll.is_none() {
                        r.stop_handed_at_poll = Some(r.polls);
                    }
                }
            }
        }
        Next::Line(line)
    }

    /// Every complete line the engine prints.
    fn observe(&mut self, view: &mut SimView<'_>, stream: u8, line: &str) {
        if view.process_exited {
            // the process is gone; nothing printed by a still-unwinding simulated thread counts
            return;
        }
        if stream == 1 {
            self.stderr_lines.push(line.to_string());
            return;
        }
        self.transcript.push(line.to_string());
        if line == "readyok" {
            self.readyok_seen += 1;
            if self.readyok_seen > self.isready_sent {
                self.violation("unsolicited-readyok", "readyok without isready".into(), "unsolicited-readyok".into());
            }
        } else if let Some(rest) = line.strip_prefix("bestmove") {
            self.bestmoves_seen += 1;
            let mv = rest.split_whitespace().next().unwrap_or("").to_string();
            match self.outstanding.take() {
                None => {
                    self.violation(
                        "unsolicited-bestmove",
                        format!("`{line}` printed with no go outstanding"),
                        "unsolicited-bestmove".into(),
                    );
                }
                Some(o) => {
                    let rec = &mut self.gos[o.ordinal];
                    rec.bestmove = Some(mv.clone());
                    rec.answered_ns = Some(view.now_ns);
                    if let Some(r) = view.searches.get_mut(o.ordinal) {
                        r.finished = true;
                        r.finished_ns = Some(view.now_ns);
                    }
                    if !rec.legal.contains(&mv) {
                        let fen = rec.fen.clone();
                        let spec = rec.spec.line();
                        self.violation(
                            "illegal-bestmove",
                            format!("`{line}` is not a legal move in {fen} (after `{spec}`)"),
                            format!("illegal-bestmove {fen}"),
                        );
                    }
                    // `bestmove X ponder Y`: Y must be a legal reply to X
                    let toks: Vec<&str> = rest.split_whitespace().collect();
                    if toks.len() >= 3 && toks[1] == "ponder" {
                        probe(&mut self.probes, "ponder_move_checked");
                        let mut g = o.monitor.root.clone();
                        if let Some(m) = oracle::find_move(&g, &mv) {
                            g.make_move(m);
                            if oracle::find_move(&g, toks[2]).is_none() {
                                let fen = o.monitor.root.to_fen();
                                self.violation(
                                    "illegal-ponder",
                                    format!("`{line}`: the ponder move is not a legal reply to the best move in {fen}"),
                                    format!("illegal-ponder {fen}"),
                                );
                            }
                        }
                    }
                    if o.monitor.infos == 0 {
                        probe(&mut self.probes, "bestmove_without_any_info_line");
                    }
                }
            }
        } else if line.starts_with("info ") {
            if let Some(info) = oracle::parse_info(line) {
                if let Some(o) = &mut self.outstanding {
                    let vs = o.monitor.check(&info);
                    let ord = o.ordinal;
                    if matches!(info.score, oracle::Score::Mate(_)) {
                        probe(&mut self.probes, "mate_announcement_checked");
                    }
                    if self.gos[ord].infos.len() < self.max_info_lines_kept {
                        self.gos[ord].infos.push(info);
                    }
                    for (class, msg) in vs {
                        let sig = format!("{class} {}", self.gos[ord].fen);
                        self.violation(&class, msg, sig);
                    }
                } else {
                    self.violation("info-without-go", format!("`{line}` printed with no go outstanding"), "info-without-go".into());
                }
            }
        } else if line.starts_with("option name ") {
            self.option_lines += 1;
            // option name <name…> type spin default D min A max B
            let toks: Vec<&str> = line.split_whitespace().collect();
            if let Some(tpos) = toks.iter().position(|t| *t == "type") {
                let name = toks[2..tpos].join(" ");
                if toks.get(tpos + 1) == Some(&"spin") {
                    let get = |key: &str| -> Option<i64> {
                        toks.iter().position(|t| *t == key).and_then(|p| toks.get(p + 1)).and_then(|v| v.parse().ok())
                    };
                    if let (Some(d), Some(mn), Some(mx)) = (get("default"), get("min"), get("max")) {
                        self.spin_options.push(SpinOption { name, default: d, min: mn, max: mx });
                    }
                }
            }
        } else if line == "uciok" {
            self.uciok_seen = true;
        } else if line.starts_with("error: Unable to change TT size during search") {
            self.refused_setoptions += 1;
            probe(&mut self.probes, "setoption_lost_try_lock_race");
            // before the first `go` of the session there is no search that could hold the tables
            if self.gos.is_empty() {
                self.violation(
                    "option-refused-idle",
                    format!("`{line}` although no search has been started yet in this session"),
                    "option-refused-idle".into(),
                );
            }
        }
    }
}

/// stdin side
pub struct GuiSource(pub Rc<RefCell<GuiState>>);

impl LineSource for GuiSource {
    fn next(&mut self, core: &mut SimCore<'_>) -> Next {
        self.0.borrow_mut().decide(core)
    }
}

/// stdout side
pub fn observer(gui: Rc<RefCell<GuiState>>) -> Box<dyn FnMut(&mut SimView<'_>, u8, &str)> {
    Box::new(move |view, stream, line| gui.borrow_mut().observe(view, stream, line))
}
