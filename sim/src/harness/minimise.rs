//! Minimisation of a failing scenario before it is reported: shrink the operation / command
//! sequence (ddmin), simplify arguments, drop clock faults and knobs, and reduce the schedule to the
//! fewest preemptions — accepting a candidate only if the *same violation class* persists.

use super::props::{self, Ctx};
use super::report::RunReport;
use super::scenario::*;
use super::sched::Policy;
use std::process::ExitCode;
use std::time::Instant;

pub struct Mini {
    pub ctx: Ctx,
    pub class: String,
    pub tests: u64,
    pub failing_tests: u64,
    pub deadline: Instant,
    pub last: Option<(Violation, String)>,
}

impl Mini {
    pub fn out_of_budget(&self) -> bool {
        Instant::now() > self.deadline || self.failing_tests > 400
    }

    /// Does `sc` still show the violation class?  (A candidates: recorded schedule first, then a
    /// few fresh schedule streams.)
    pub fn fails(&mut self, sc: &Scenario) -> Option<Scenario> {
        if self.out_of_budget() {
            return None;
        }
        let attempts: Vec<Scenario> = match sc {
            Scenario::A(a) => {
                let mut v = vec![Scenario::A(a.clone())];
                for k in 0..2u64 {
                    let mut b = a.clone();
                    b.schedule = None;
                    b.sched_seed = a.sched_seed.wrapping_add(0x9E37_79B9 * (k + 1));
                    v.push(Scenario::A(b));
                }
                v
            }
            other => vec![other.clone()],
        };
        for cand in attempts {
            self.tests += 1;
            let rep: RunReport = props::evaluate_scenario(&self.ctx, &cand);
            if let Some(v) = rep.violations.iter().find(|v| v.violation.class == self.class) {
                self.failing_tests += 1;
                self.last = Some((v.violation.clone(), v.fingerprint.clone()));
                // the scenario as executed (with its recorded schedule)
                return Some(v.scenario.clone());
            }
        }
        None
    }
}

fn ddmin<T: Clone>(items: Vec<T>, test: &mut dyn FnMut(&[T]) -> bool) -> Vec<T> {
    let mut items = items;
    let mut n = 2usize;
    while items.len() >= 2 {
        let len = items.len();
        let chunk = (len + n - 1) / n;
        let mut reduced = false;
        let mut start = 0;
        while start < len {
            let end = (start + chunk).min(len);
            let cand: Vec<T> = items[..start].iter().chain(items[end..].iter()).cloned().collect();
            if !cand.is_empty() && test(&cand) {
                items = cand;
                n = n.saturating_sub(1).max(2);
                reduced = true;
                break;
            }
            start = end;
        }
        if !reduced {
            if n >= len {
                break;
            }
            n = (n * 2).min(len);
        }
    }
    items
}

fn simpler_intents(i: &Intent) -> Vec<Intent> {
    match i {
        Intent::Position { fen, moves } => {
            let mut v = Vec::new();
            if !moves.is_empty() {
                v.push(Intent::Position { fen: fen.clone(), moves: vec![] });
                v.push(Intent::Position { fen: fen.clone(), moves: moves[..moves.len() / 2].to_vec() });
            }
            if fen.is_some() {
                v.push(Intent::Position { fen: None, moves: vec![] });
            }
            v
        }
        Intent::PlayBest => vec![],
        Intent::Go(g) => {
            let mut v = Vec::new();
            if let Some(d) = g.depth {
                if d > 1 {
                    v.push(Intent::Go(GoSpec::depth(1)));
                    v.push(Intent::Go(GoSpec::depth(d - 1)));
                }
            } else if g.timed() {
                v.push(Intent::Go(GoSpec::depth(1)));
            }
            v
        }
        Intent::WaitPolls(n) if *n > 0 => vec![Intent::WaitPolls(0), Intent::WaitPolls(n / 2)],
        _ => vec![],
    }
}

fn minimise_a(m: &mut Mini, mut best: ScenarioA) -> ScenarioA {
    // 1. command sequence
    {
        let base = best.clone();
        let script = ddmin(best.script.clone(), &mut |cand: &[Intent]| {
            let mut c = base.clone();
            c.script = cand.to_vec();
            m.fails(&Scenario::A(c)).is_some()
        });
        let mut c = best.clone();
        c.script = script;
        if let Some(Scenario::A(x)) = m.fails(&Scenario::A(c)) {
            best = x;
        }
    }
    // 2. simpler arguments
    let mut i = 0;
    while i < best.script.len() && !m.out_of_budget() {
        for alt in simpler_intents(&best.script[i]) {
            let mut c = best.clone();
            c.script[i] = alt;
            if let Some(Scenario::A(x)) = m.fails(&Scenario::A(c)) {
                best = x;
                break;
            }
        }
        i += 1;
    }
    // 3. clock faults and knobs
    while !best.clock_events.is_empty() && !m.out_of_budget() {
        let mut removed = false;
        for k in 0..best.clock_events.len() {
            let mut c = best.clone();
            c.clock_events.remove(k);
            if let Some(Scenario::A(x)) = m.fails(&Scenario::A(c)) {
                best = x;
                removed = true;
                break;
            }
        }
        if !removed {
            break;
        }
    }
    for knob in 0..4 {
        if m.out_of_budget() {
            break;
        }
        let mut c = best.clone();
        match knob {
            0 => c.knobs.spurious_permille = 0,
            1 => c.knobs.policy = Policy::Uniform,
            2 => c.knobs.poll_interval = None,
            _ => c.knobs.initial_hash_mb = Some(1),
        }
        if c != best {
            if let Some(Scenario::A(x)) = m.fails(&Scenario::A(c)) {
                best = x;
            }
        }
    }
    // 4. fewest preemptions: an empty recorded schedule means "keep the running thread whenever
    // possible"; then try to cut the recorded choice list from the back
    if let Some(sched) = best.schedule.clone() {
        let mut c = best.clone();
        c.schedule = Some(vec![]);
        if let Some(Scenario::A(x)) = m.fails(&Scenario::A(c)) {
            best = x;
        } else {
            let mut keep = sched.len();
            let mut step = (keep / 2).max(1);
            while step >= 1 && keep > 0 && !m.out_of_budget() {
                if keep >= step {
                    let mut c = best.clone();
                    c.schedule = Some(sched[..keep - step].to_vec());
                    if let Some(Scenario::A(x)) = m.fails(&Scenario::A(c)) {
                        // the runner records the full executed schedule; remember the cut instead
                        keep -= step;
                        let mut y = x;
                        y.schedule = Some(sched[..keep].to_vec());
                        best = y;
                        continue;
                    }
                }
                if step == 1 {
                    break;
                }
                step /= 2;
            }
        }
    }
    best
}

fn simpler_steps(s: &SearchStep) -> Vec<SearchStep> {
    let mut v = Vec::new();
    if !s.moves.is_empty() {
        let mut c = s.clone();
        c.moves.clear();
        v.push(c);
        let mut c = s.clone();
        c.moves.truncate(s.moves.len() / 2);
        v.push(c);
    }
    if let Some(d) = s.go.depth {
        if d > 1 {
            let mut c = s.clone();
            c.go.depth = Some(d - 1);
            v.push(c);
        }
    }
    if !s.clock_events.is_empty() {
        let mut c = s.clone();
        c.clock_events.clear();
        v.push(c);
    }
    if s.resize_mb.is_some() {
        let mut c = s.clone();
        c.resize_mb = None;
        v.push(c);
    }
    if s.reset {
        let mut c = s.clone();
        c.reset = false;
        v.push(c);
    }
    if s.move_overhead != 0 {
        let mut c = s.clone();
        c.move_overhead = 0;
        v.push(c);
    }
    v
}

fn minimise_b(m: &mut Mini, mut best: ScenarioB) -> ScenarioB {
    {
        let base = best.clone();
        let steps = ddmin(best.steps.clone(), &mut |cand: &[SearchStep]| {
            let mut c = base.clone();
            c.steps = cand.to_vec();
            m.fails(&Scenario::B(c)).is_some()
        });
        best.steps = steps;
    }
    let mut i = 0;
    while i < best.steps.len() && !m.out_of_budget() {
        let mut progress = true;
        while progress && !m.out_of_budget() {
            progress = false;
            for alt in simpler_steps(&best.steps[i]) {
                let mut c = best.clone();
                c.steps[i] = alt;
                if m.fails(&Scenario::B(c.clone())).is_some() {
                    best = c;
                    progress = true;
                    break;
                }
            }
        }
        i += 1;
    }
    for knob in 0..2 {
        let mut c = best.clone();
        match knob {
            0 => c.poll_interval = None,
            _ => c.initial_hash_mb = 1,
        }
        if c != best && m.fails(&Scenario::B(c.clone())).is_some() {
            best = c;
        }
    }
    best
}

fn minimise_t(m: &mut Mini, mut best: ScenarioT) -> ScenarioT {
    let base = best.clone();
    let ops = ddmin(best.ops.clone(), &mut |cand: &[TtOp]| {
        let mut c = base.clone();
        c.ops = cand.to_vec();
        m.fails(&Scenario::T(c)).is_some()
    });
    best.ops = ops;
    // smaller generation runs
    for i in 0..best.ops.len() {
        if let TtOp::Generations { n } = best.ops[i] {
            for cand_n in [1u32, n / 2, n.saturating_sub(1)] {
                if cand_n == 0 || cand_n >= n {
                    continue;
                }
                let mut c = best.clone();
                c.ops[i] = TtOp::Generations { n: cand_n };
                if m.fails(&Scenario::T(c.clone())).is_some() {
                    best = c;
                    break;
                }
            }
        }
    }
    best
}

pub fn minimise(ctx: &Ctx, class: &str, scenario: &Scenario, budget_s: f64) -> (Scenario, Option<(Violation, String)>, u64) {
    let mut m = Mini {
        ctx: ctx.clone(),
        class: class.to_string(),
        tests: 0,
        failing_tests: 0,
        deadline: Instant::now() + std::time::Duration::from_secs_f64(budget_s),
        last: None,
    };
    // the original must fail, else there is nothing to minimise
    let Some(start) = m.fails(scenario) else {
        return (scenario.clone(), None, m.tests);
    };
    let best = match start {
        Scenario::A(a) => Scenario::A(minimise_a(&mut m, a)),
        Scenario::B(b) => Scenario::B(minimise_b(&mut m, b)),
        Scenario::T(t) => Scenario::T(minimise_t(&mut m, t)),
        other => other,
    };
    // final confirmation run of exactly what is written out
    m.deadline = Instant::now() + std::time::Duration::from_secs(120);
    m.failing_tests = 0;
    let confirmed = props::evaluate_scenario(ctx, &best);
    let last = confirmed
        .violations
        .iter()
        .find(|v| v.violation.class == class)
        .map(|v| (v.violation.clone(), v.fingerprint.clone(), v.scenario.clone()));
    match last {
        Some((v, fp, sc)) => {
            // keep the cut schedule if the confirmation executed it unchanged
            let out = match (&best, &sc) {
                (Scenario::A(b), Scenario::A(_)) => Scenario::A(b.clone()),
                _ => sc,
            };
            (out, Some((v, fp)), m.tests)
        }
        None => (scenario.clone(), None, m.tests),
    }
}

pub fn main(args: &[String]) -> ExitCode {
    let (Some(path), Some(out)) = (args.get(2), args.get(3)) else {
        errln!("usage: sim minimise <in.json> <out.json> [--budget-s N]");
        return ExitCode::from(2);
    };
    let budget_s: f64 = args.iter().position(|a| a == "--budget-s").and_then(|i| args.get(i + 1)).and_then(|s| s.parse().ok()).unwrap_or(60.0);
    let text = std::fs::read_to_string(path).expect("cannot read replay file");
    let mut file: ReplayFile = serde_json::from_str(&text).expect("cannot parse replay file");
    let ctx = Ctx { property: file.property.clone(), tier: file.tier.clone(), seed: file.seed, profile: file.profile.clone() };
    let (sc, last, tests) = minimise(&ctx, &file.violation.class.clone(), &file.scenario, budget_s);
    match last {
        Some((v, fp)) => {
            file.scenario = sc;
            file.violation = v;
            file.log_hash = fp;
            file.minimised = true;
            file.note = format!("minimised with {tests} candidate executions");
            std::fs::write(out, serde_json::to_string_pretty(&file).unwrap()).expect("cannot write");
            ExitCode::SUCCESS
        }
        None => {
            // could not reproduce in this process: keep the original
            file.note = format!("minimisation could not reproduce the violation ({tests} candidate executions); original scenario kept");
            std::fs::write(out, serde_json::to_string_pretty(&file).unwrap()).expect("cannot write");
            ExitCode::from(3)
        }
    }
}
