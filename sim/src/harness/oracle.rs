//! Oracles shared by several properties.  The legality oracle is the engine's own generator run on
//! a position the *harness* holds (rebuilt from FEN + move list), never on engine state.

use crate::chess::game::Game;
use crate::chess::moves::Move;
use crate::engine::uci::UciMove;

pub fn move_str(mv: Move) -> String {
    UciMove::from(mv).notation()
}

pub fn legal_move_strs(game: &Game) -> Vec<String> {
    game.moves().iter().map(|m| move_str(*m)).collect()
}

pub fn find_move(game: &Game, s: &str) -> Option<Move> {
    game.moves().iter().copied().find(|m| move_str(*m) == s)
}

/// Build a position from a FEN (None = startpos) and UCI move strings; Err if any move is illegal.
pub fn build_position(fen: Option<&str>, moves: &[String]) -> Result<Game, String> {
    let mut game = match fen {
        None => Game::new(),
        Some(f) => Game::from_fen(f)?,
    };
    for m in moves {
        let mv = find_move(&game, m).ok_or_else(|| format!("move {m} is not legal in {}", game.to_fen()))?;
        game.make_move(mv);
    }
    Ok(game)
}

#[derive(Clone, Debug, PartialEq)]
pub enum Score {
    Cp(i32),
    Mate(i32),
}

#[derive(Clone, Debug)]
pub struct InfoLine {
    pub depth: u32,
    pub seldepth: Option<u32>,
    pub score: Score,
    pub nodes: Option<u64>,
    pub hashfull: Option<u64>,
    pub pv: Vec<String>,
}

/// Parse an `info depth … score … pv …` line as printed by the engine.  None for other lines.
pub fn parse_info(line: &str) -> Option<InfoLine> {
    let mut it = line.split_whitespace();
    if it.next()? != "info" {
        return None;
    }
    let toks: Vec<&str> = it.collect();
    let mut depth = None;
    let mut seldepth = None;
    let mut score = None;
    let mut nodes = None;
    let mut hashfull = None;
    let mut pv = Vec::new();
    let mut i = 0;
    while i < toks.len() {
        match toks[i] {
            "depth" => {
                depth = toks.get(i + 1).and_then(|t| t.parse().ok());
                i += 2;
            }
            "seldepth" => {
                seldepth = toks.get(i + 1).and_then(|t| t.parse().ok());
                i += 2;
            }
            "score" => {
                let kind = toks.get(i + 1).copied();
                let val: Option<i32> = toks.get(i + 2).and_then(|t| t.parse().ok());
                score = match (kind, val) {
                    (Some("cp"), Some(v)) => Some(Score::Cp(v)),
                    (Some("mate"), Some(v)) => Some(Score::Mate(v)),
                    _ => None,
                };
                i += 3;
            }
            "nodes" => {
                nodes = toks.get(i + 1).and_then(|t| t.parse().ok());
                i += 2;
            }
            "hashfull" => {
                hashfull = toks.get(i + 1).and_then(|t| t.parse().ok());
                i += 2;
            }
            "time" | "nps" | "tbhits" => i += 2,
            "pv" => {
                pv = toks[i + 1..].iter().map(|s| s.to_string()).collect();
                i = toks.len();
            }
            "string" => i = toks.len(),
            _ => i += 1,
        }
    }
    Some(InfoLine { depth: depth?, seldepth, score: score?, nodes, hashfull, pv })
}

/// Remove the fields C12 allows to differ (`time`, `nps`) from an info line.
pub fn strip_time_fields(line: &str) -> String {
    let toks: Vec<&str> = line.split_whitespace().collect();
    if toks.first() != Some(&"info") {
        return line.to_string();
    }
    let mut out: Vec<&str> = Vec::new();
    let mut i = 0;
    while i < toks.len() {
        if toks[i] == "pv" || toks[i] == "string" {
            out.extend_from_slice(&toks[i..]);
            break;
        }
        if (toks[i] == "time" || toks[i] == "nps") && i + 1 < toks.len() {
            i += 2;
            continue;
        }
        out.push(toks[i]);
        i += 1;
    }
    out.join(" ")
}

/// Castling rights as the TEXT of the commanded position gives them, followed through the moves
/// played since by square names alone (a move from or to e1/a1/h1/e8/a8/h8 ends the rights tied
/// to that square).  Independent of the engine's FEN reader and of its rights bookkeeping.
pub fn castling_rights_by_text(fen: Option<&str>, moves: &[String]) -> String {
    let mut rights: String = match fen {
        None => "KQkq".to_string(),
        Some(f) => f.split_whitespace().nth(2).unwrap_or("-").chars().filter(|c| "KQkq".contains(*c)).collect(),
    };
    for m in moves {
        if m.len() < 4 {
            continue;
        }
        for sq in [&m[0..2], &m[2..4]] {
            let gone: &str = match sq {
                "e1" => "KQ",
                "h1" => "K",
                "a1" => "Q",
                "e8" => "kq",
                "h8" => "k",
                "a8" => "q",
                _ => "",
            };
            rights.retain(|c| !gone.contains(c));
        }
    }
    rights
}

/// Legal moves of `game` (by the engine's own generator) without the castling moves that the text of
/// the commanded position rules out.
pub fn legal_move_strs_checked(game: &Game, fen: Option<&str>, moves: &[String]) -> Vec<String> {
    let rights = castling_rights_by_text(fen, moves);
    let gf = game.to_fen();
    let placement = gf.split_whitespace().next().unwrap_or("").to_string();
    let king_on = |sq: &str, k: char| -> bool {
        // piece letter on `sq` in the placement field
        let (file, rank) = (sq.as_bytes()[0] - b'a', sq.as_bytes()[1] - b'0');
        let Some(row) = placement.split('/').nth(8 - rank as usize) else { return false };
        let mut f = 0u8;
        for c in row.chars() {
            if let Some(d) = c.to_digit(10) {
                f += d as u8;
            } else {
                if f == file {
                    return c == k;
                }
                f += 1;
            }
        }
        false
    };
    legal_move_strs(game)
        .into_iter()
        .filter(|m| match m.as_str() {
            "e1g1" if king_on("e1", 'K') => rights.contains('K'),
            "e1c1" if king_on("e1", 'K') => rights.contains('Q'),
            "e8g8" if king_on("e8", 'k') => rights.contains('k'),
            "e8c8" if king_on("e8", 'k') => rights.contains('q'),
            _ => true,
        })
        .collect()
}

/// State of the C08 monitor for one search.
#[derive(Clone, Debug)]
pub struct LineMonitor {
    pub root: Game,
    pub depth_limit: Option<u8>,
    pub last_depth: u32,
    pub infos: u32,
    pub mates_checked: u32,
    pub pv_moves_checked: u64,
    pub root_legal: Option<Vec<String>>,
}

impl LineMonitor {
    pub fn new(root: Game, depth_limit: Option<u8>) -> Self {
        LineMonitor { root, depth_limit, last_depth: 0, infos: 0, mates_checked: 0, pv_moves_checked: 0, root_legal: None }
    }

    /// The legal moves of the root as judged with the text of the commanded position (see
    /// `legal_move_strs_checked`): the first move of every line must be one of them.
    pub fn with_root_legal(mut self, legal: Vec<String>) -> Self {
        self.root_legal = Some(legal);
        self
    }

    /// Check one reported line; returns (class, message) per violated clause of C08.
    pub fn check(&mut self, info: &InfoLine) -> Vec<(String, String)> {
        let mut v = Vec::new();
        let fen = self.root.to_fen();
        self.infos += 1;
        if info.depth != self.last_depth + 1 {
            v.push((
                "depth-sequence".to_string(),
                format!("depth {} reported after depth {} (position {fen})", info.depth, self.last_depth),
            ));
        }
        self.last_depth = info.depth;
        if let Some(limit) = self.depth_limit {
            if info.depth > limit as u32 {
                v.push(("depth-exceeds-limit".to_string(), format!("depth {} reported under `go depth {limit}` (position {fen})", info.depth)));
            }
        }
        if info.pv.is_empty() {
            v.push(("pv-empty".to_string(), format!("empty pv at depth {} (position {fen})", info.depth)));
            return v;
        }
        let mut g = self.root.clone();
        if let (Some(legal), Some(first)) = (&self.root_legal, info.pv.first()) {
            if !legal.contains(first) {
                v.push((
                    "pv-illegal".to_string(),
                    format!("pv move #1 `{first}` of `{}` is not legal (depth {}, position {fen})", info.pv.join(" "), info.depth),
                ));
                return v;
            }
        }
        for (i, m) in info.pv.iter().enumerate() {
            match find_move(&g, m) {
                Some(mv) => {
                    g.make_move(mv);
                    self.pv_moves_checked += 1;
                }
                None => {
                    v.push((
                        "pv-illegal".to_string(),
                        format!("pv move #{} `{m}` of `{}` is not legal (depth {}, position {fen})", i + 1, info.pv.join(" "), info.depth),
                    ));
                    return v;
                }
            }
        }
        if let Score::Mate(n) = info.score {
            self.mates_checked += 1;
            let want = if n > 0 { 2 * n as i64 - 1 } else { 2 * (-(n as i64)) };
            if n == 0 {
                v.push(("mate-zero".to_string(), format!("`score mate 0` announced (depth {}, position {fen})", info.depth)));
            } else if info.pv.len() as i64 != want {
                v.push((
                    "mate-length".to_string(),
                    format!("mate {n} announced with a {}-ply line `{}` (expected {want} plies; depth {}, position {fen})", info.pv.len(), info.pv.join(" "), info.depth),
                ));
            } else {
                let mated = g.moves().is_empty() && g.is_king_in_check();
                // n > 0: the opponent of the root side is mated; n < 0: the root side itself
                let side_ok = if n > 0 { g.player != self.root.player } else { g.player == self.root.player };
                if !mated || !side_ok {
                    v.push((
                        "mate-false".to_string(),
                        format!("mate {n} announced but the line `{}` does not end in checkmate of the announced side (depth {}, position {fen})", info.pv.join(" "), info.depth),
                    ));
                }
            }
        }
        v
    }
}
