//! Property workloads: how run `i` of a check is generated from (VERIF_SEED, i), executed and
//! judged.  Every function here is a pure function of its arguments and the engine code.

use super::gen::*;
use super::gui::Found;
use super::report::*;
use super::rng::Rng;
use super::scenario::*;
use super::sched::Policy;
use super::worlda::{run_a, OutcomeA};
use super::worldb::{run_b, BOptions, OutcomeB};
use serde_json::json;

#[derive(Clone, Debug)]
pub struct Ctx {
    pub property: String,
    pub tier: String,
    pub seed: u64,
    pub profile: String,
}

impl Ctx {
    pub fn thorough(&self) -> bool {
        self.tier == "thorough"
    }
}

pub fn found_to_report(ctx: &Ctx, rep: &mut RunReport, found: &[Found], scenario: &Scenario, fingerprint: u64) {
    for f in found {
        if class_bears_on(&f.class, &ctx.property) {
            rep.violations.push(FoundViolation {
                violation: Violation { property: ctx.property.clone(), class: f.class.clone(), message: f.message.clone(), signature: f.signature.clone() },
                scenario: scenario.clone(),
                fingerprint: format!("{fingerprint:016x}"),
            });
        } else {
            rep.other_observations.push(format!("{}: {}", f.class, f.message));
        }
    }
}

pub fn absorb_a(ctx: &Ctx, rep: &mut RunReport, sc: &ScenarioA, out: &OutcomeA, nontrivial: bool) {
    rep.evaluations += 1;
    rep.fingerprints.push((out.fingerprint, nontrivial));
    rep.agg.absorb_a(&out.stats);
    if let Some(e) = &out.harness_error {
        rep.harness_errors.push(e.clone());
        return;
    }
    if let Some(i) = &out.inconclusive {
        rep.inconclusive.push(i.clone());
    }
    let mut replay = sc.clone();
    replay.schedule = Some(out.schedule.clone());
    found_to_report(ctx, rep, &out.found, &Scenario::A(replay), out.fingerprint);
}

pub fn absorb_b(ctx: &Ctx, rep: &mut RunReport, sc: &ScenarioB, out: &OutcomeB, nontrivial: bool) {
    rep.evaluations += 1;
    rep.fingerprints.push((out.fingerprint, nontrivial));
    rep.agg.absorb_b(&out.stats);
    if let Some(e) = &out.harness_error {
        rep.harness_errors.push(e.clone());
        return;
    }
    if let Some(i) = &out.inconclusive {
        rep.inconclusive.push(i.clone());
    }
    found_to_report(ctx, rep, &out.found, &Scenario::B(sc.clone()), out.fingerprint);
}

// =================================================================================================
// C05 — no command history can hang the engine
// =================================================================================================

fn gen_go_for_session(rng: &mut Rng, white_to_move: bool, max_depth: u8) -> GoSpec {
    match rng.weighted(&[50, 30, 10, 10]) {
        0 => gen_depth_go(rng, max_depth),
        1 => GoSpec::infinite(),
        2 => GoSpec::movetime(rng.range(0, 40)),
        _ => {
            let mut g = gen_clock_go(rng, white_to_move);
            // keep timed searches short in simulated time: they run to their limit
            for t in [&mut g.wtime, &mut g.btime] {
                if let Some(v) = t {
                    *v = (*v).min(2_000);
                }
            }
            g
        }
    }
}

pub fn gen_c05(ctx: &Ctx, run: u64) -> ScenarioA {
    let mut rng = Rng::derive(ctx.seed, run, "c05.script");
    let mut krng = Rng::derive(ctx.seed, run, "c05.knobs");
    let knobs = gen_knobs(&mut krng);
    let profile = rng.weighted(&[40, 20, 20, 12, 8]);
    let len = match profile {
        3 => rng.range(4, 14),
        _ => rng.range(3, if ctx.thorough() { 40 } else { 26 }),
    } as usize;
    let max_depth = if knobs.poll_interval.is_none() { 4 } else { 5 };
    let mut script: Vec<Intent> = Vec::new();
    // what the GUI would believe about side to move, for clock generation only
    let mut cur: (Option<String>, Vec<String>) = (None, vec![]);
    if rng.chance(1, 4) {
        script.push(Intent::Uci);
    }
    let hash_values: [&str; 8] = ["0", "1", "1", "2", "3", "4", "8", "16"];
    while script.len() < len {
        // weights per profile: isready, newgame, position, playbest, setoption, go, stop, waitbest, waitpolls
        let w: [u64; 9] = match profile {
            0 => [14, 9, 14, 8, 6, 24, 11, 6, 8],   // general
            1 => [8, 4, 8, 4, 2, 30, 26, 4, 14],    // stop-heavy
            2 => [8, 26, 8, 4, 4, 24, 16, 6, 4],    // newgame-heavy
            3 => [6, 4, 10, 12, 2, 50, 4, 10, 2],   // back-to-back finite searches
            _ => [10, 10, 10, 5, 20, 25, 8, 6, 6],  // option-heavy
        };
        match rng.weighted(&w) {
            0 => script.push(Intent::IsReady),
            1 => script.push(Intent::UciNewGame),
            2 => {
                let (fen, moves) = gen_position(&mut rng, false);
                cur = (fen.clone(), moves.clone());
                script.push(Intent::Position { fen, moves });
            }
            3 => script.push(Intent::PlayBest),
            4 => match rng.below(10) {
                0..=5 => script.push(Intent::SetOption { name: "Hash".into(), value: rng.pick(&hash_values).to_string() }),
                6 => script.push(Intent::SetOption { name: "Threads".into(), value: "1".into() }),
                _ => script.push(Intent::SetOption { name: "Move Overhead".into(), value: rng.range(0, 1000).to_string() }),
            },
            5 => {
                let white = side_to_move_is_white(&cur.0, &cur.1);
                let go = if profile == 3 { gen_depth_go(&mut rng, max_depth) } else { gen_go_for_session(&mut rng, white, max_depth) };
                script.push(Intent::Go(go));
            }
            6 => script.push(Intent::Stop),
            7 => script.push(Intent::WaitBestmove),
            _ => script.push(Intent::WaitPolls(rng.range(0, 6))),
        }
    }
    // GUI ends the session with quit, or simply dies (EOF)
    if rng.chance(7, 10) {
        if rng.chance(1, 3) {
            script.push(Intent::IsReady);
        }
        script.push(Intent::Quit);
    }
    let n_go = script.iter().filter(|i| matches!(i, Intent::Go(_))).count();
    let mut crng = Rng::derive(ctx.seed, run, "c05.clock");
    let clock_events = gen_clock_events(&mut crng, n_go.min(5), 20_000_000);
    ScenarioA { script, knobs, clock_events, sched_seed: Rng::derive(ctx.seed, run, "c05.sched").next_u64(), schedule: None }
}

pub fn sample_a(sc: &ScenarioA, out: &OutcomeA) -> serde_json::Value {
    json!({
        "script": sc.script.iter().map(intent_str).collect::<Vec<_>>(),
        "knobs": format!("{:?}", sc.knobs),
        "clock_events": sc.clock_events.len(),
        "scheduler_decisions": out.stats.sched_decisions,
        "context_switches": out.stats.sched_switches,
        "transcript_head": out.transcript.iter().take(12).cloned().collect::<Vec<_>>(),
    })
}

pub fn intent_str(i: &Intent) -> String {
    match i {
        Intent::Uci => "uci".into(),
        Intent::IsReady => "isready".into(),
        Intent::UciNewGame => "ucinewgame".into(),
        Intent::Position { fen, moves } => format!("position {} (+{} moves)", fen.clone().unwrap_or_else(|| "startpos".into()), moves.len()),
        Intent::PlayBest => "<position: play engine's best move>".into(),
        Intent::SetOption { name, value } => format!("setoption name {name} value {value}"),
        Intent::SetSpin { name, pick } => format!("setoption name {name} value <{pick:?} of advertised range>"),
        Intent::Go(g) => g.line(),
        Intent::Stop => "stop".into(),
        Intent::WaitBestmove => "<wait for bestmove>".into(),
        Intent::WaitPolls(n) => format!("<wait {n} polls>"),
        Intent::Quit => "quit".into(),
    }
}

pub fn run_c05(ctx: &Ctx, run: u64) -> RunReport {
    let mut rep = RunReport { run, ..Default::default() };
    let sc = gen_c05(ctx, run);
    let out = run_a(&sc, false);
    // non-trivial: at least one search ran and at least one scheduling decision had a real choice
    let nontrivial = out.stats.searches > 0 && !out.schedule.is_empty();
    absorb_a(ctx, &mut rep, &sc, &out, nontrivial);
    if run % 997 == 0 {
        rep.sample = Some(sample_a(&sc, &out));
    }
    rep
}

// =================================================================================================
// dispatch
// =================================================================================================

pub fn run_property(ctx: &Ctx, run: u64) -> RunReport {
    match ctx.property.as_str() {
        "C05" => run_c05(ctx, run),
        other => {
            let mut r = RunReport { run, ..Default::default() };
            r.harness_errors.push(format!("no workload for property {other}"));
            r
        }
    }
}

/// Number of runs of a check per tier and build profile.
pub fn budget(property: &str, tier: &str, profile: &str) -> u64 {
    let thorough = tier == "thorough";
    match (property, profile) {
        ("C05", "checked") => if thorough { 600_000 } else { 24_000 },
        ("C05", _) => if thorough { 200_000 } else { 8_000 },
        _ => 0,
    }
}

/// Re-run a stored scenario under the oracle of `property` (replay and minimisation).
pub fn evaluate_scenario(ctx: &Ctx, scenario: &Scenario) -> RunReport {
    let mut rep = RunReport::default();
    match scenario {
        Scenario::A(sc) => {
            let out = run_a(sc, false);
            absorb_a(ctx, &mut rep, sc, &out, true);
        }
        Scenario::B(sc) => {
            let out = run_b(sc, &BOptions::default());
            absorb_b(ctx, &mut rep, sc, &out, true);
        }
        _ => rep.harness_errors.push("scenario kind not supported yet".into()),
    }
    rep
}

/// The (first) scenario run `run` of a check executes — used to attribute a worker that died.
pub fn scenario_of(ctx: &Ctx, run: u64) -> Option<Scenario> {
    match ctx.property.as_str() {
        "C05" => Some(Scenario::A(gen_c05(ctx, run))),
        _ => None,
    }
}
