//! Property workloads: how run `i` of a check is generated from (VERIF_SEED, i), executed and
//! judged.  Every function here is a pure function of its arguments and the engine code.

use super::gen::*;
use super::gui::Found;
use super::report::*;
use super::rng::Rng;
use super::scenario::*;
use super::sched::Policy;
use super::worlda::{run_a, take_panic, OutcomeA};
use super::worldb::{run_b, BOptions, OutcomeB};
use serde_json::json;

#[derive(Clone, Debug)]
pub struct Ctx {
    pub property: String,
    pub tier: String,
    pub seed: u64,
    pub profile: String,
}

impl Ctx {
    pub fn thorough(&self) -> bool {
        self.tier == "thorough"
    }
}

pub fn found_to_report(ctx: &Ctx, rep: &mut RunReport, found: &[Found], scenario: &Scenario, fingerprint: u64) {
    for f in found {
        if class_bears_on(&f.class, &ctx.property) {
            rep.violations.push(FoundViolation {
                violation: Violation { property: ctx.property.clone(), class: f.class.clone(), message: f.message.clone(), signature: f.signature.clone() },
                scenario: scenario.clone(),
                fingerprint: format!("{fingerprint:016x}"),
            });
        } else {
            rep.other_observations.push(format!("{}: {}", f.class, f.message));
        }
    }
}

pub fn absorb_a(ctx: &Ctx, rep: &mut RunReport, sc: &ScenarioA, out: &OutcomeA, nontrivial: bool) {
    rep.evaluations += 1;
    rep.fingerprints.push((out.fingerprint, nontrivial));
    rep.schedule_hashes.push(out.schedule_hash ^ (out.schedule.len() as u64) << 48);
    rep.agg.absorb_a(&out.stats);
    if let Some(e) = &out.harness_error {
        rep.harness_errors.push(e.clone());
        return;
    }
    if let Some(i) = &out.inconclusive {
        rep.inconclusive.push(i.clone());
    }
    let mut replay = sc.clone();
    replay.schedule = Some(out.schedule.clone());
    found_to_report(ctx, rep, &out.found, &Scenario::A(replay), out.fingerprint);
}

pub fn absorb_b(ctx: &Ctx, rep: &mut RunReport, sc: &ScenarioB, out: &OutcomeB, nontrivial: bool) {
    rep.evaluations += 1;
    rep.fingerprints.push((out.fingerprint, nontrivial));
    rep.agg.absorb_b(&out.stats);
    if let Some(e) = &out.harness_error {
        rep.harness_errors.push(e.clone());
        return;
    }
    if let Some(i) = &out.inconclusive {
        rep.inconclusive.push(i.clone());
    }
    found_to_report(ctx, rep, &out.found, &Scenario::B(sc.clone()), out.fingerprint);
}

// =================================================================================================
// C05 — no command history can hang the engine
// =================================================================================================

fn gen_go_for_session(rng: &mut Rng, white_to_move: bool, max_depth: u8) -> GoSpec {
    match rng.weighted(&[50, 30, 10, 10]) {
        0 => gen_depth_go(rng, max_depth),
        1 => GoSpec::infinite(),
        2 => {
            let mut g = GoSpec::movetime(rng.range(0, 40));
            if rng.chance(1, 3) {
                g.depth = Some(rng.range(1, 3) as u8);
            }
            g
        }
        _ => {
            let mut g = gen_clock_go(rng, white_to_move);
            if rng.chance(1, 3) {
                g.depth = Some(rng.range(1, 3) as u8);
            }
            // keep timed searches short in simulated time: they run to their limit
            for t in [&mut g.wtime, &mut g.btime] {
                if let Some(v) = t {
                    *v = (*v).min(2_000);
                }
            }
            g
        }
    }
}

pub fn gen_c05(ctx: &Ctx, run: u64) -> ScenarioA {
    let mut rng = Rng::derive(ctx.seed, run, "c05.script");
    let mut krng = Rng::derive(ctx.seed, run, "c05.knobs");
    let knobs = gen_knobs(&mut krng);
    let profile = rng.weighted(&[40, 20, 20, 12, 8]);
    let len = match profile {
        3 => rng.range(4, 14),
        _ => rng.range(3, if ctx.thorough() { 40 } else { 26 }),
    } as usize;
    // polling at (almost) every node makes every node a scheduling step: keep those searches small
    let max_depth = match knobs.poll_interval {
        Some(1) | Some(7) => 3,
        None => 4,
        _ => 5,
    };
    let mut script: Vec<Intent> = Vec::new();
    // what the GUI would believe about side to move, for clock generation only
    let mut cur: (Option<String>, Vec<String>) = (None, vec![]);
    if rng.chance(1, 4) {
        script.push(Intent::Uci);
    }
    let hash_values: [&str; 8] = ["0", "1", "1", "2", "3", "4", "8", "16"];
    while script.len() < len {
        // weights per profile: isready, newgame, position, playbest, setoption, go, stop, waitbest, waitpolls
        let w: [u64; 9] = match profile {
            0 => [14, 9, 14, 8, 6, 24, 11, 6, 8],   // general
            1 => [8, 4, 8, 4, 2, 30, 26, 4, 14],    // stop-heavy
            2 => [8, 26, 8, 4, 4, 24, 16, 6, 4],    // newgame-heavy
            3 => [6, 4, 10, 12, 2, 50, 4, 10, 2],   // back-to-back finite searches
            _ => [10, 10, 10, 5, 20, 25, 8, 6, 6],  // option-heavy
        };
        match rng.weighted(&w) {
            0 => script.push(Intent::IsReady),
            1 => script.push(Intent::UciNewGame),
            2 => {
                let (fen, moves) = gen_position(&mut rng, false);
                cur = (fen.clone(), moves.clone());
                script.push(Intent::Position { fen, moves });
            }
            3 => script.push(Intent::PlayBest),
            4 => match rng.below(10) {
                0..=5 => script.push(Intent::SetOption { name: "Hash".into(), value: rng.pick(&hash_values).to_string() }),
                6 => script.push(Intent::SetOption { name: "Threads".into(), value: "1".into() }),
                _ => script.push(Intent::SetOption { name: "Move Overhead".into(), value: rng.range(0, 1000).to_string() }),
            },
            5 => {
                let white = side_to_move_is_white(&cur.0, &cur.1);
                let go = if profile == 3 { gen_depth_go(&mut rng, max_depth) } else { gen_go_for_session(&mut rng, white, max_depth) };
                script.push(Intent::Go(go));
            }
            6 => script.push(Intent::Stop),
            7 => script.push(Intent::WaitBestmove),
            _ => script.push(Intent::WaitPolls(rng.range(0, 6))),
        }
        // `debug on|off` is part of the protocol too (it must change nothing that matters here)
        if rng.chance(1, 40) {
            script.push(Intent::Raw(if rng.chance(1, 2) { "debug on".into() } else { "debug off".into() }));
        }
    }
    // GUI ends the session with quit, or simply dies (EOF)
    if rng.chance(7, 10) {
        if rng.chance(1, 3) {
            script.push(Intent::IsReady);
        }
        script.push(Intent::Quit);
    }
    let n_go = script.iter().filter(|i| matches!(i, Intent::Go(_))).count();
    let mut crng = Rng::derive(ctx.seed, run, "c05.clock");
    let clock_events = gen_clock_events(&mut crng, n_go.min(5), 20_000_000);
    ScenarioA { script, knobs, clock_events, sched_seed: Rng::derive(ctx.seed, run, "c05.sched").next_u64(), schedule: None }
}

pub fn sample_a(sc: &ScenarioA, out: &OutcomeA) -> serde_json::Value {
    json!({
        "script": sc.script.iter().map(intent_str).collect::<Vec<_>>(),
        "knobs": format!("{:?}", sc.knobs),
        "clock_events": sc.clock_events.len(),
        "scheduler_decisions": out.stats.sched_decisions,
        "context_switches": out.stats.sched_switches,
        "transcript_head": out.transcript.iter().take(12).cloned().collect::<Vec<_>>(),
    })
}

pub fn intent_str(i: &Intent) -> String {
    match i {
        Intent::Uci => "uci".into(),
        Intent::IsReady => "isready".into(),
        Intent::UciNewGame => "ucinewgame".into(),
        Intent::Position { fen, moves } => format!("position {} (+{} moves)", fen.clone().unwrap_or_else(|| "startpos".into()), moves.len()),
        Intent::PlayBest => "<position: play engine's best move>".into(),
        Intent::SetOption { name, value } => format!("setoption name {name} value {value}"),
        Intent::SetSpin { name, pick } => format!("setoption name {name} value <{pick:?} of advertised range>"),
        Intent::Go(g) => g.line(),
        Intent::Stop => "stop".into(),
        Intent::WaitBestmove => "<wait for bestmove>".into(),
        Intent::WaitPolls(n) => format!("<wait {n} polls>"),
        Intent::Raw(l) | Intent::RawNow(l) => l.clone(),
        Intent::Quit => "quit".into(),
    }
}

pub fn run_c05(ctx: &Ctx, run: u64) -> RunReport {
    let mut rep = RunReport { run, ..Default::default() };
    let sc = gen_c05(ctx, run);
    let out = run_a(&sc, false);
    // non-trivial: at least one search ran and at least one scheduling decision had a real choice
    let nontrivial = out.stats.searches > 0 && !out.schedule.is_empty();
    absorb_a(ctx, &mut rep, &sc, &out, nontrivial);
    if run % 997 == 0 {
        rep.sample = Some(sample_a(&sc, &out));
    }
    rep
}


// =================================================================================================
// property-specific judgement of an executed scenario (shared by the workloads and by replay)
// =================================================================================================

/// Adds the findings only this property's oracle can make.  Returns a property-specific count
/// (C14: clock tuples checked).
pub fn judge_a(ctx: &Ctx, sc: &ScenarioA, out: &mut OutcomeA, agg: &mut Agg) -> u64 {
    match ctx.property.as_str() {
        "C13" => {
            judge_c13(out);
            0
        }
        "C14" => judge_c14(sc, out, agg),
        "C09" => {
            judge_c09_a(out);
            0
        }
        "C19" => {
            judge_c19_a(sc, out);
            0
        }
        _ => 0,
    }
}

/// C19 through the UCI text: the first info line of the first search after a `ucinewgame` reports a
/// fill that a table emptied by the `ucinewgame` can have reached with the nodes searched so far.
fn judge_c19_a(sc: &ScenarioA, out: &mut OutcomeA) {
    let mut go_index = 0usize;
    let mut after_newgame = false;
    for i in &sc.script {
        match i {
            Intent::UciNewGame => after_newgame = true,
            Intent::Go(_) => {
                // table size in effect for this go: the last Hash value the engine did not refuse
                let mb: usize = out.gos.get(go_index).and_then(|g| g.hash_mb_believed).unwrap_or(sc.knobs.initial_hash_mb.unwrap_or(256));
                // a one-slot table (Hash 0) is full after the first store: every report must say so
                if mb == 0 {
                    if let Some(g) = out.gos.get(go_index) {
                        if let Some(bad) = g.infos.iter().find(|i| i.hashfull.map(|h| h != 1000).unwrap_or(false)) {
                            out.found.push(Found {
                                class: "tt-occupancy".into(),
                                message: format!("Hash 0 was set and not refused (one slot), but `info depth {}` reports hashfull {} instead of 1000", bad.depth, bad.hashfull.unwrap_or(0)),
                                signature: "tt-occupancy one-slot table over UCI".into(),
                            });
                            return;
                        }
                    }
                }
                if after_newgame {
                    if let Some(g) = out.gos.get(go_index) {
                        if let Some(first) = g.infos.first() {
                            let slots = super::ttmodel::slots_for(mb) as u64;
                            let nodes = first.nodes.unwrap_or(0) + 1;
                            let max_fill = (nodes.min(slots) * 1000 / slots) + 1;
                            if let Some(h) = first.hashfull {
                                if h > max_fill {
                                    out.found.push(Found {
                                        class: "tt-not-empty-after-newgame".into(),
                                        message: format!("first info line after ucinewgame reports hashfull {h} after {nodes} nodes on a {mb} MB table ({slots} slots): the table was not emptied"),
                                        signature: "tt-not-empty-after-newgame".into(),
                                    });
                                    return;
                                }
                            }
                        }
                    }
                    after_newgame = false;
                }
                go_index += 1;
            }
            _ => {}
        }
    }
}

pub fn gen_c19_a(ctx: &Ctx, run: u64) -> ScenarioA {
    let mut rng = Rng::derive(ctx.seed, run, "c19a");
    let mut krng = Rng::derive(ctx.seed, run, "c19a.knobs");
    let mut knobs = gen_knobs(&mut krng);
    knobs.initial_hash_mb = Some(*rng.pick(&[1usize, 1, 2, 3]));
    let mut script = Vec::new();
    for _ in 0..rng.range(1, 3) {
        let (fen, moves) = gen_position(&mut rng, false);
        script.push(Intent::Position { fen, moves });
        script.push(Intent::Go(GoSpec::depth(rng.range(4, 6) as u8)));
        script.push(Intent::WaitBestmove);
        // the GUI may change the table size the moment it has seen bestmove (the engine may refuse
        // that with its own error line, in which case a GUI repeats the request)
        if rng.chance(1, 2) {
            let v = rng.pick(&["0", "0", "1", "2", "3"]).to_string();
            script.push(Intent::SetOption { name: "Hash".into(), value: v.clone() });
            if rng.chance(1, 2) {
                script.push(Intent::IsReady);
                script.push(Intent::SetOption { name: "Hash".into(), value: v });
            }
            if rng.chance(1, 2) {
                let (fen, moves) = gen_position(&mut rng, false);
                script.push(Intent::Position { fen, moves });
                script.push(Intent::Go(GoSpec::depth(rng.range(1, 4) as u8)));
                script.push(Intent::WaitBestmove);
            }
        }
        // the new game starts the moment the GUI has seen bestmove
        script.push(Intent::UciNewGame);
        let (fen, moves) = gen_position(&mut rng, false);
        script.push(Intent::Position { fen, moves });
        script.push(Intent::Go(GoSpec::depth(1)));
        script.push(Intent::WaitBestmove);
    }
    script.push(Intent::Quit);
    ScenarioA { script, knobs, clock_events: vec![], sched_seed: Rng::derive(ctx.seed, run, "c19a.sched").next_u64(), schedule: None }
}

pub fn judge_b(ctx: &Ctx, sc: &ScenarioB, out: &mut OutcomeB) {
    match ctx.property.as_str() {
        "C04" => {
            // a depth-limited search (depth <= 6) that exhausted the budget did not terminate
            if let (Some(i), Some(msg)) = (out.failed_step, out.inconclusive.clone()) {
                if let Some(st) = sc.steps.get(i) {
                    if st.go.depth.map(|d| d <= 6).unwrap_or(false) && !st.go.timed() && st.stop_at_poll.is_none() {
                        out.found.push(Found {
                            class: "non-termination".into(),
                            message: format!("`{}` in {} (after {} moves) did not finish within {} nodes: {msg}", st.go.line(), st.fen, st.moves.len(), NON_TERMINATION_NODES),
                            signature: "non-termination depth-limited".into(),
                        });
                        out.inconclusive = None;
                    }
                }
            }
        }
        "C09" => {
            // the cancellation must take effect at the poll at which the flag first reads true
            for t in &out.steps {
                let Some(st) = sc.steps.get(t.index) else { continue };
                if let Some(k) = st.stop_at_poll {
                    // (a time limit may legitimately end the search before poll k; later than k is never right)
                    let seen_at = t.rec.first_stop.map(|p| p.0);
                    if let Some(p) = seen_at {
                        if p > k {
                            out.found.push(Found { class: "stop-late".into(), message: format!("search #{}: flag true from poll {k} on, the search reacted at poll {p}", t.index), signature: "stop-late".into() });
                            break;
                        }
                    }
                }
            }
            out.found = retag_for_c09(std::mem::take(&mut out.found), 0);
        }
        _ => {}
    }
}

fn judge_c13(out: &mut OutcomeA) {
    // the engine must advertise its spin options, and must not reject an in-range value
    if out.harness_error.is_none() {
        if out.spin_options.is_empty() && !out.found.iter().any(|f| f.class == "panic" || f.class == "deadlock") {
            out.found.push(Found { class: "options-not-advertised".into(), message: "no `option name … type spin …` line after `uci`".into(), signature: "options-not-advertised".into() });
        }
        let rejected = out.stderr.iter().chain(out.transcript.iter()).find(|l| l.contains("Unable to set") || l.contains("Invalid value"));
        let exit_msg = match &out.main_result {
            Some(Err(e)) if e.contains("Unable to set") || e.contains("Unknown option") => Some(e.clone()),
            _ => None,
        };
        if let Some(m) = rejected.cloned().or(exit_msg) {
            out.found.retain(|f| f.class != "engine-exit");
            out.found.push(Found { class: "option-rejected".into(), message: format!("an advertised in-range value was rejected: {m}"), signature: "option-rejected".into() });
        }
    }
}

fn judge_c14(sc: &ScenarioA, out: &mut OutcomeA, agg: &mut Agg) -> u64 {
    let mut tuples = 0u64;
    let mut flag_checked = 0u64;
    let mut assumption_void = 0u64;
    if out.harness_error.is_none() {
        for g in &out.gos {
            let Some(rec) = out.searches.get(g.ordinal) else {
                out.found.push(Found { class: "limits-missing".into(), message: format!("no limits were computed for `{}`", g.spec.line()), signature: "limits-missing".into() });
                break;
            };
            let white = g.fen.split_whitespace().nth(1) != Some("b");
            let lim = &rec.limits;
            let clocks = g.spec.wtime.is_some() || g.spec.btime.is_some();
            if clocks {
                tuples += 1;
                // what the GUI sent for the side to move (absent = no time)
                let r_ms = if white { g.spec.wtime } else { g.spec.btime }.unwrap_or(0);
                let r_ns = r_ms as u128 * 1_000_000;
                // the overhead the GUI configured (not what the engine thinks it is)
                let ov_ns = g.overhead_ms_configured.map(|m| m as u128 * 1_000_000).unwrap_or(lim.overhead_ns as u128);
                if ov_ns * 2 <= r_ns && g.spec.movestogo.map(|m| m >= 1).unwrap_or(true) {
                    let cap = (r_ns - ov_ns) / 2;
                    let tol = cap / 1_000_000 + 1_000; // f32 rounding of Duration::mul_f32, plus 1 µs
                    if lim.hard_ns as u128 > cap + tol {
                        out.found.push(Found {
                            class: "limit-hard-exceeds-half".into(),
                            message: format!("`{}` with Move Overhead {} ms ({} to move): hard limit {} ns exceeds half of the remaining time after overhead ({} ns)",
                                g.spec.line(), ov_ns / 1_000_000, if white { "white" } else { "black" }, lim.hard_ns, cap),
                            signature: "limit-hard-exceeds-half".into(),
                        });
                    }
                    if lim.soft_ns > lim.hard_ns {
                        out.found.push(Found {
                            class: "limit-soft-exceeds-hard".into(),
                            message: format!("`{}` with Move Overhead {} ms: soft limit {} ns exceeds hard limit {} ns", g.spec.line(), lim.overhead_ns / 1_000_000, lim.soft_ns, lim.hard_ns),
                            signature: "limit-soft-exceeds-hard".into(),
                        });
                    }
                }
                // (2) flag fall
                if r_ms >= 200 && !g.stopped_by_gui {
                    if let Some(ans) = g.answered_ns {
                        let used = ans.saturating_sub(rec.epoch_ns) as u128;
                        // the promise is made under the stated environment assumption only: the latency
                        // the *environment* adds per poll (polling interval at this node rate, injected
                        // stalls and jumps, time passing on clock reads) is at most R/4.  Delays the
                        // engine causes itself (e.g. clearing a table inside the timed window) count
                        // against the engine.
                        let interval = sc.knobs.poll_interval.unwrap_or(10_000) as u128;
                        let mut env_ns: u128 = interval * sc.knobs.tau_ps as u128 / 1000 + 4 * sc.knobs.clock_read_step_ns as u128;
                        for e in &sc.clock_events {
                            if e.search == g.ordinal {
                                env_ns += match e.fault {
                                    ClockFaultS::Stall { ns } | ClockFaultS::Jump { ns } => ns as u128,
                                    ClockFaultS::Freeze { .. } => 0,
                                };
                            }
                        }
                        if env_ns * 4 <= r_ns {
                            flag_checked += 1;
                            if used >= r_ns {
                                out.found.push(Found {
                                    class: "flag-fall".into(),
                                    message: format!("`{}` in {}: bestmove after {} ms of simulated time, the clock had {} ms (largest gap between polls {} ms)",
                                        g.spec.line(), g.fen, used / 1_000_000, r_ms, rec.max_poll_gap_ns / 1_000_000),
                                    signature: "flag-fall".into(),
                                });
                            }
                        } else {
                            assumption_void += 1;
                        }
                    }
                }
            } else if let Some(mt) = g.spec.movetime {
                tuples += 1;
                let want = mt as u64 * 1_000_000;
                if lim.soft_ns != want || lim.hard_ns != want {
                    out.found.push(Found {
                        class: "limit-movetime-not-as-given".into(),
                        message: format!("`{}`: soft {} ns / hard {} ns, expected both {} ns", g.spec.line(), lim.soft_ns, lim.hard_ns, want),
                        signature: "limit-movetime-not-as-given".into(),
                    });
                }
            }
        }
    }
    agg.add("c14.clock_tuples_checked", tuples);
    agg.add("c14.flag_fall_searches_checked", flag_checked);
    agg.add("c14.searches_outside_environment_assumption", assumption_void);
    tuples
}

fn judge_c09_a(out: &mut OutcomeA) {
    // World A sees "continued after stop" through the search records
    for s in &out.searches {
        if s.first_stop.is_some() && (s.calls_after_stop > 0 || s.nodes_after_stop > 0) {
            out.found.push(Found {
                class: "continued-after-stop".into(),
                message: format!("search #{} went on for {} nodes after poll #{} had observed the stop", s.id, s.nodes_after_stop, s.first_stop.unwrap().0),
                signature: "continued-after-stop".into(),
            });
            break;
        }
    }
    out.found = retag_for_c09(std::mem::take(&mut out.found), usize::MAX);
}

// =================================================================================================
// dispatch
// =================================================================================================

pub fn run_property(ctx: &Ctx, run: u64) -> RunReport {
    // The generators and oracles use the engine's own rules code (FEN, move generation, make_move).
    // If that code panics outside an execution — on a position the corpus lists or on a move its own
    // generator produced — the run is over, and the panic is the engine's, not the harness's.
    let _ = take_panic();
    match std::panic::catch_unwind(std::panic::AssertUnwindSafe(|| run_property_inner(ctx, run))) {
        Ok(rep) => rep,
        Err(_) => {
            let (msg, loc) = take_panic().unwrap_or_else(|| ("<unknown panic>".into(), String::new()));
            let mut rep = RunReport { run, ..Default::default() };
            rep.evaluations = 1;
            if loc.starts_with('/') && !loc.contains("/.cargo/") && !loc.contains("/rustc/") {
                let v = Violation {
                    property: ctx.property.clone(),
                    class: "panic".into(),
                    message: format!("engine rules code panicked at {loc} while the workload of run {run} was being prepared (positions played out with the engine's own move generator): {msg}"),
                    signature: format!("panic {loc}"),
                };
                if class_bears_on("panic", &ctx.property) {
                    rep.violations.push(FoundViolation { violation: v, scenario: Scenario::Gen { run }, fingerprint: format!("{:016x}", super::rng::hash_str(&format!("{msg}@{loc}"))) });
                } else {
                    rep.other_observations.push(format!("panic (while preparing the workload): {msg} at {loc}"));
                }
            } else {
                rep.harness_errors.push(format!("harness panic while preparing/evaluating run {run}: {msg} at {loc}"));
            }
            rep
        }
    }
}

fn run_property_inner(ctx: &Ctx, run: u64) -> RunReport {
    match ctx.property.as_str() {
        "C05" => run_c05(ctx, run),
        "C04" => run_c04(ctx, run),
        "C08" => run_c08(ctx, run),
        "C09" => run_c09(ctx, run),
        "C19" => run_c19(ctx, run),
        "C13" => run_c13(ctx, run),
        "C14" => run_c14(ctx, run),
        "C12" => run_c12(ctx, run),
        other => {
            let mut r = RunReport { run, ..Default::default() };
            r.harness_errors.push(format!("no workload for property {other}"));
            r
        }
    }
}

/// Number of runs of a check per tier and build profile.
pub fn budget(property: &str, tier: &str, profile: &str) -> u64 {
    let thorough = tier == "thorough";
    match (property, profile) {
        ("C05", "checked") => if thorough { 600_000 } else { 24_000 },
        ("C05", _) => if thorough { 200_000 } else { 8_000 },
        _ => 0,
    }
}

/// Re-run a stored scenario under the oracle of `property` (replay and minimisation).
pub fn evaluate_scenario(ctx: &Ctx, scenario: &Scenario) -> RunReport {
    let mut rep = RunReport::default();
    match scenario {
        Scenario::Gen { run } => {
            return run_property(ctx, *run);
        }
        Scenario::A(sc) => {
            let mut out = run_a(sc, false);
            judge_a(ctx, sc, &mut out, &mut rep.agg);
            absorb_a(ctx, &mut rep, sc, &out, true);
        }
        Scenario::B(sc) => {
            let mut out = run_b(sc, &BOptions { node_cap: NON_TERMINATION_NODES, keep_infos: 4 });
            judge_b(ctx, sc, &mut out);
            absorb_b(ctx, &mut rep, sc, &out, true);
        }
        Scenario::T(sc) => {
            let out = super::ttmodel::run_tt(sc);
            rep.evaluations += 1;
            rep.fingerprints.push((out.fingerprint, true));
            found_to_report(ctx, &mut rep, &out.found, scenario, out.fingerprint);
        }
        Scenario::Pair { base, other, compare_from_newgame } => {
            let a = run_a(base, false);
            let b = run_a(other, false);
            rep.evaluations += 2;
            rep.fingerprints.push((b.fingerprint, true));
            if let Some(e) = a.harness_error.clone().or(b.harness_error.clone()) {
                rep.harness_errors.push(e);
                return rep;
            }
            let ta = search_transcript(&a);
            let tb = search_transcript(&b);
            let ta_cmp: Vec<String> = if *compare_from_newgame {
                let skip = a.gos.len() - b.gos.len().min(a.gos.len());
                let mut seen = 0;
                let mut idx = 0;
                for (i, l) in ta.iter().enumerate() {
                    if seen == skip {
                        idx = i;
                        break;
                    }
                    if l.starts_with("bestmove") {
                        seen += 1;
                        idx = i + 1;
                    }
                }
                ta[idx..].to_vec()
            } else {
                ta
            };
            if ta_cmp != tb {
                let at = tb.iter().zip(ta_cmp.iter()).position(|(x, y)| x != y).unwrap_or(tb.len().min(ta_cmp.len()));
                let class = if *compare_from_newgame { "newgame-not-fresh" } else { "transcript-diff" };
                rep.violations.push(FoundViolation {
                    violation: Violation {
                        property: ctx.property.clone(),
                        class: class.into(),
                        message: format!("line {at}: `{}` vs `{}`", ta_cmp.get(at).cloned().unwrap_or_else(|| "<none>".into()), tb.get(at).cloned().unwrap_or_else(|| "<none>".into())),
                        signature: class.into(),
                    },
                    scenario: scenario.clone(),
                    fingerprint: format!("{:016x}", b.fingerprint),
                });
            }
        }
    }
    rep
}

/// The (first) scenario run `run` of a check executes — used to attribute a worker that died.
pub fn scenario_of(ctx: &Ctx, run: u64) -> Option<Scenario> {
    match ctx.property.as_str() {
        "C05" => Some(Scenario::A(gen_c05(ctx, run))),
        "C04" if run % 4 == 3 => Some(Scenario::A(gen_c05(ctx, run ^ 0x00C0_4A00_0000))),
        "C04" => Some(Scenario::B(gen_c04(ctx, run))),
        "C13" => Some(Scenario::A(gen_c13(ctx, run))),
        "C12" => {
            let mut rng = Rng::derive(ctx.seed, run, "c12");
            let initial_hash = *rng.pick(&[1usize, 1, 2, 3, 16]);
            let (script, _) = gen_c12_script(&mut rng, ctx.thorough(), run % 3 == 2, run % 12 == 2);
            Some(Scenario::A(ScenarioA { script, knobs: Knobs { initial_hash_mb: Some(initial_hash), resend_position: run % 12 != 2, ..Knobs::default() }, clock_events: vec![], sched_seed: Rng::derive(ctx.seed, run, "c12.sched.base").next_u64(), schedule: None }))
        }
        "C14" => Some(Scenario::A(gen_c14(ctx, run))),
        "C09" => Some(if run % 4 == 3 { Scenario::A(gen_c09_a(ctx, run)) } else { Scenario::B(gen_c09(ctx, run).base) }),
        "C19" if run % 10 == 8 => Some(Scenario::A(gen_c19_a(ctx, run))),
        "C19" => Some(Scenario::T(super::ttmodel::gen_tt(&mut Rng::derive(ctx.seed, run, "c19"), ctx.thorough(), run))),
        "C08" => Some(if run % 5 == 4 { Scenario::A(gen_c08_a(ctx, run)) } else { Scenario::B(gen_c08(ctx, run)) }),
        _ => None,
    }
}

// =================================================================================================
// World B step generators (C04, C08, C09)
// =================================================================================================

/// A search limit for World B whose cost is bounded: depth limits, time limits that the simulated
/// clock lets expire after a bounded number of nodes, or an "infinite" search stopped at poll k.
fn gen_limit_b(rng: &mut Rng, white_to_move: bool, poll_interval: Option<u64>, tau_ps: u64, max_depth: u8) -> (GoSpec, Option<u64>, u64) {
    let interval = poll_interval.unwrap_or(10_000);
    match rng.weighted(&[62, 12, 12, 14]) {
        0 => (gen_depth_go(rng, max_depth), None, 0),
        1 => {
            // movetime: expires after at most ~150 k nodes of simulated work
            let max_ms = (150_000u128 * tau_ps as u128 / 1_000_000_000).max(1) as u64;
            let mut g = GoSpec::movetime(rng.range(0, max_ms));
            // a depth cap on top of the time limit (GUIs configured with both send both)
            if rng.chance(1, 3) {
                g.depth = Some(rng.range(1, 4) as u8);
            }
            (g, None, 0)
        }
        2 => {
            let mut g = gen_clock_go(rng, white_to_move);
            let max_ms = (400_000u128 * tau_ps as u128 / 1_000_000_000).max(2) as u64;
            for t in [&mut g.wtime, &mut g.btime] {
                if let Some(v) = t {
                    *v = (*v).min(max_ms);
                }
            }
            let overhead = if rng.chance(1, 3) { rng.range(0, 50) } else { 0 };
            if rng.chance(1, 3) {
                g.depth = Some(rng.range(1, 4) as u8);
            }
            (g, None, overhead)
        }
        _ => {
            // infinite (or depth 255), cancelled at poll k
            let max_polls = (200_000 / interval).clamp(3, 400);
            let k = rng.range(1, max_polls);
            let mut g = GoSpec::infinite();
            if rng.chance(1, 3) {
                g = GoSpec::depth(255);
            }
            (g, Some(k), 0)
        }
    }
}

fn gen_step(rng: &mut Rng, poll_interval: Option<u64>, tau_ps: u64, max_depth: u8, mate_bias: bool) -> SearchStep {
    let (fen, moves) = gen_position(rng, mate_bias);
    let white = side_to_move_is_white(&fen, &moves);
    let (go, stop_at_poll, move_overhead) = gen_limit_b(rng, white, poll_interval, tau_ps, max_depth);
    let clock_events = if go.timed() { gen_clock_events(rng, 1, 3_000_000).into_iter().map(|mut e| { e.search = 0; e }).collect() } else { vec![] };
    SearchStep {
        fen: fen.unwrap_or_else(|| super::corpus::STARTPOS.to_string()),
        moves,
        go,
        move_overhead,
        stop_at_poll,
        resize_mb: None,
        reset: false,
        clock_events,
    }
}

// =================================================================================================
// C04 — a search always answers with one legal move and never crashes
// =================================================================================================

pub fn gen_c04(ctx: &Ctx, run: u64) -> ScenarioB {
    let mut rng = Rng::derive(ctx.seed, run, "c04");
    let poll_interval = gen_poll_interval(&mut rng);
    let tau_ps = gen_tau(&mut rng);
    let initial_hash_mb = *rng.pick(&[0usize, 1, 1, 1, 2, 3, 4, 16]);
    let profile = rng.weighted(&[if ctx.thorough() { 300 } else { 400 }, 1, 24]);
    let mut steps = Vec::new();
    match profile {
        0 => {
            // mixed session
            let n = rng.range(1, 12);
            let max_depth = if ctx.thorough() { 8 } else { 6 };
            for _ in 0..n {
                let mate_bias = rng.chance(1, 3);
                let mut st = gen_step(&mut rng, poll_interval, tau_ps, max_depth, mate_bias);
                let mut extra: Vec<SearchStep> = Vec::new();
                if rng.chance(15, 100) {
                    st.resize_mb = Some(*rng.pick(&[0usize, 0, 1, 1, 2, 3, 4, 8, 16, 64]));
                }
                if rng.chance(10, 100) {
                    st.reset = true;
                }
                // sometimes the "twin" of the previous position: same placement and side to move,
                // fewer castling rights (positions that differ only in their rights share the tables)
                let prev_has_rights = steps.last().map(|p: &SearchStep| (p.fen.split_whitespace().nth(2).map(|r| r != "-").unwrap_or(false) || p.fen.split_whitespace().nth(3).map(|r| r != "-").unwrap_or(false)) && p.moves.len() < 12).unwrap_or(false);
                if rng.chance(if prev_has_rights { 40 } else { 10 }, 100) {
                    if let Some(prev) = steps.last() {
                        // … lost by the rules (pieces left home and came back) or simply not there
                        let shuffled = if rng.chance(1, 3) { shuffle_away_rights(prev, &mut rng) } else { None };
                        if let Some(moves) = shuffled {
                            st.fen = prev.fen.clone();
                            st.moves = moves;
                            st.resize_mb = None;
                            st.reset = false;
                        } else if let Some(twin) = twin_with_fewer_rights(prev, &mut rng) {
                            st.fen = twin;
                            st.moves.clear();
                            st.resize_mb = None;
                            st.reset = false;
                        }
                    }
                } else if rng.chance(20, 100) {
                    // … or a child of the previous position after a double pawn push, without the
                    // en-passant right the push granted inside the previous search's tree (that
                    // search is made deep enough for its inner nodes to be stored with moves)
                    if let Some(prev) = steps.last_mut() {
                        let mut twins = children_without_ep_right(prev);
                        if !twins.is_empty() {
                            let twin = twins.swap_remove(rng.below(twins.len() as u64) as usize);
                            for t in twins.into_iter().take(3) {
                                extra.push(SearchStep { fen: t, moves: vec![], go: GoSpec::depth(rng.range(1, 3) as u8), move_overhead: 0, stop_at_poll: None, resize_mb: None, reset: false, clock_events: vec![] });
                            }
                            if prev.go.depth.map(|d| d < 5).unwrap_or(false) && !prev.go.timed() && prev.stop_at_poll.is_none() {
                                prev.go = GoSpec::depth(rng.range(5, max_depth as u64) as u8);
                            }
                            st.fen = twin;
                            st.moves.clear();
                            st.resize_mb = None;
                            st.reset = false;
                            st.go = GoSpec::depth(rng.range(1, 4) as u8);
                            st.stop_at_poll = None;
                        }
                    }
                }
                steps.append(&mut extra);
                steps.push(st);
            }
        }
        1 => {
            // long session: the 8-bit generation counter wraps (several times in thorough)
            let n = rng.range(258, if ctx.thorough() { 800 } else { 300 });
            let positions: Vec<(Option<String>, Vec<String>)> = (0..6).map(|_| gen_position(&mut rng, false)).collect();
            for _ in 0..n {
                let (fen, moves) = rng.pick(&positions).clone();
                steps.push(SearchStep {
                    fen: fen.unwrap_or_else(|| super::corpus::STARTPOS.to_string()),
                    moves,
                    go: GoSpec::depth(rng.range(1, 2) as u8),
                    move_overhead: 0,
                    stop_at_poll: None,
                    resize_mb: None,
                    reset: false,
                    clock_events: vec![],
                });
            }
        }
        _ => {
            // deep: `go depth 255` / infinite on small endgames, cancelled after a bounded number of polls
            let endgames: Vec<&str> = super::corpus::EXTRA.iter().copied().filter(|f| f.split(' ').next().unwrap().chars().filter(|c| c.is_alphabetic()).count() <= 5).collect();
            for _ in 0..rng.range(1, 3) {
                let fen = rng.pick(&endgames).to_string();
                let moves = playout(Some(&fen), rng.range(0, 6) as usize, &mut rng);
                let interval = poll_interval.unwrap_or(10_000);
                steps.push(SearchStep {
                    fen,
                    moves,
                    go: if rng.chance(1, 2) { GoSpec::depth(255) } else { GoSpec::infinite() },
                    move_overhead: 0,
                    stop_at_poll: Some((rng.range(100_000, 600_000) / interval).max(2)),
                    resize_mb: None,
                    reset: false,
                    clock_events: vec![],
                });
            }
        }
    }
    ScenarioB { initial_hash_mb, poll_interval, tau_ps, clock_read_step_ns: gen_read_step(&mut rng), steps }
}

/// The position after a double pawn push that grants an en-passant right, written WITHOUT that right:
/// inside the previous search's tree the same placement occurred with the right.
fn child_without_ep_right(prev: &SearchStep, rng: &mut Rng) -> Option<String> {
    let cands = children_without_ep_right(prev);
    if cands.is_empty() {
        None
    } else {
        Some(rng.pick(&cands).clone())
    }
}

fn children_without_ep_right(prev: &SearchStep) -> Vec<String> {
    let Ok(g) = super::oracle::build_position(Some(&prev.fen), &prev.moves) else { return vec![] };
    let mut cands = Vec::new();
    for mv in g.moves().iter() {
        let mut n = g.clone();
        n.make_move(*mv);
        if n.en_passant_target.is_some() && !n.moves().is_empty() {
            let mut f: Vec<String> = n.to_fen().split_whitespace().map(|s| s.to_string()).collect();
            if f.len() >= 4 {
                f[3] = "-".to_string();
                cands.push(f.join(" "));
            }
        }
    }
    cands
}

/// Piece letters by square name (`e1` …) of a FEN placement field.
fn fen_board(placement: &str) -> std::collections::BTreeMap<String, char> {
    let mut b = std::collections::BTreeMap::new();
    for (ri, rank) in placement.split('/').enumerate() {
        let mut file = 0u8;
        for c in rank.chars() {
            if let Some(d) = c.to_digit(10) {
                file += d as u8;
            } else {
                b.insert(format!("{}{}", (b'a' + file) as char, 8 - ri), c);
                file += 1;
            }
        }
    }
    b
}

/// A continuation of `prev`'s game after which the very same placement is on the board with the same
/// side to move, but castling rights are gone: a king or rook leaves its home square and returns,
/// twice, while the other side does the same with some piece (8 plies).  By the rules the result
/// differs from `prev`'s position in nothing but the rights (and the counters).
fn shuffle_away_rights(prev: &SearchStep, rng: &mut Rng) -> Option<Vec<String>> {
    if prev.moves.len() > 60 {
        return None;
    }
    let g = super::oracle::build_position(Some(&prev.fen), &prev.moves).ok()?;
    let fen = g.to_fen();
    let f: Vec<&str> = fen.split_whitespace().collect();
    if f.len() < 4 || f[2] == "-" {
        return None;
    }
    let rights = f[2].to_string();
    let loses = |from: &str| -> bool {
        match from {
            "e1" => rights.contains('K') || rights.contains('Q'),
            "h1" => rights.contains('K'),
            "a1" => rights.contains('Q'),
            "e8" => rights.contains('k') || rights.contains('q'),
            "h8" => rights.contains('k'),
            "a8" => rights.contains('q'),
            _ => false,
        }
    };
    let quiet = |game: &crate::chess::game::Game| -> Vec<String> {
        let gf = game.to_fen();
        let board = fen_board(gf.split_whitespace().next().unwrap_or(""));
        super::oracle::legal_move_strs(game)
            .into_iter()
            .filter(|m| m.len() == 4)
            .filter(|m| {
                let (from, to) = (&m[0..2], &m[2..4]);
                let piece = board.get(from).copied().unwrap_or('P');
                let king_jump = (piece == 'K' || piece == 'k') && (from.as_bytes()[0] as i32 - to.as_bytes()[0] as i32).abs() > 1;
                piece != 'P' && piece != 'p' && !board.contains_key(to) && !king_jump
            })
            .collect()
    };
    let rev = |m: &str| format!("{}{}", &m[2..4], &m[0..2]);
    for _ in 0..8 {
        let c1 = quiet(&g);
        if c1.is_empty() {
            return None;
        }
        let pref1: Vec<String> = c1.iter().filter(|m| loses(&m[0..2])).cloned().collect();
        let m1 = if !pref1.is_empty() && rng.chance(4, 5) { rng.pick(&pref1).clone() } else { rng.pick(&c1).clone() };
        let mut g1 = g.clone();
        g1.make_move(super::oracle::find_move(&g1, &m1)?);
        let c2 = quiet(&g1);
        if c2.is_empty() {
            continue;
        }
        let pref2: Vec<String> = c2.iter().filter(|m| loses(&m[0..2])).cloned().collect();
        let o1 = if !pref2.is_empty() && rng.chance(1, 2) { rng.pick(&pref2).clone() } else { rng.pick(&c2).clone() };
        if !loses(&m1[0..2]) && !loses(&o1[0..2]) {
            continue;
        }
        let round = [m1.clone(), o1.clone(), rev(&m1), rev(&o1)];
        let mut seq: Vec<String> = Vec::new();
        let mut game = g.clone();
        let mut ok = true;
        'play: for _ in 0..2 {
            for m in &round {
                match super::oracle::find_move(&game, m) {
                    Some(mv) => {
                        game.make_move(mv);
                        seq.push(m.clone());
                    }
                    None => {
                        ok = false;
                        break 'play;
                    }
                }
            }
        }
        if ok && !game.moves().is_empty() {
            let mut all = prev.moves.clone();
            all.extend(seq);
            return Some(all);
        }
    }
    None
}

fn twin_with_fewer_rights(prev: &SearchStep, rng: &mut Rng) -> Option<String> {
    let g = super::oracle::build_position(Some(&prev.fen), &prev.moves).ok()?;
    let fen = g.to_fen();
    let mut f: Vec<String> = fen.split_whitespace().map(|s| s.to_string()).collect();
    if f.len() < 4 || (f[2] == "-" && f[3] == "-") {
        return None;
    }
    // an en-passant right can be the only difference too
    if f[3] != "-" && rng.chance(1, 2) {
        f[3] = "-".to_string();
        return Some(f.join(" "));
    }
    // all rights gone in half of the twins, a random subset otherwise
    let drop_all = rng.chance(1, 2);
    let kept: String = f[2].chars().filter(|_| !drop_all && rng.chance(1, 2)).collect();
    f[2] = if kept.is_empty() { "-".to_string() } else { kept };
    Some(f.join(" "))
}

pub fn sample_b(sc: &ScenarioB, out: &OutcomeB) -> serde_json::Value {
    json!({
        "initial_hash_mb": sc.initial_hash_mb,
        "poll_interval": sc.poll_interval,
        "tau_ps": sc.tau_ps,
        "searches": sc.steps.iter().take(8).map(|s| json!({
            "fen": s.fen, "moves_played_before": s.moves.len(), "go": s.go.line(), "stop_at_poll": s.stop_at_poll,
            "resize_mb": s.resize_mb, "reset": s.reset, "clock_faults": s.clock_events.len()})).collect::<Vec<_>>(),
        "searches_total": sc.steps.len(),
        "answers": out.steps.iter().take(8).map(|s| format!("{} -> bestmove {} ({} nodes, {} polls)", s.go, s.best, s.rec.max_nodes, s.rec.polls)).collect::<Vec<_>>(),
    })
}

/// depth-limited searches at small depth must finish within this many nodes (two orders of
/// magnitude above anything observed); everything else that exhausts a budget is inconclusive
const NON_TERMINATION_NODES: u64 = 50_000_000;

pub fn run_c04(ctx: &Ctx, run: u64) -> RunReport {
    let mut rep = RunReport { run, ..Default::default() };
    // one run in four drives searches through the whole command path (position handling, go
    // parsing, option changes) in a UCI session; the answer is judged against the position the GUI sent
    if run % 4 == 3 {
        let sc = gen_c05(ctx, run ^ 0x00C0_4A00_0000);
        let out = run_a(&sc, false);
        let nontrivial = out.stats.searches > 0;
        absorb_a(ctx, &mut rep, &sc, &out, nontrivial);
        return rep;
    }
    let sc = gen_c04(ctx, run);
    let opts = BOptions { node_cap: NON_TERMINATION_NODES, keep_infos: 4 };
    let mut out = run_b(&sc, &opts);
    judge_b(ctx, &sc, &mut out);
    let nontrivial = out.stats.searches > 0;
    absorb_b(ctx, &mut rep, &sc, &out, nontrivial);
    if sc.steps.len() > 255 {
        rep.agg.add("probe.session_crossed_generation_wrap", 1);
    }
    if run % 499 == 0 {
        rep.sample = Some(sample_b(&sc, &out));
    }
    rep
}

// =================================================================================================
// C08 — reported lines are playable and mate announcements are true
// =================================================================================================

pub fn gen_c08(ctx: &Ctx, run: u64) -> ScenarioB {
    let mut rng = Rng::derive(ctx.seed, run, "c08");
    let poll_interval = gen_poll_interval(&mut rng);
    let tau_ps = gen_tau(&mut rng);
    let initial_hash_mb = *rng.pick(&[1usize, 1, 1, 2, 3, 16]);
    let max_depth = if ctx.thorough() { 8 } else { 7 };
    let mut steps = Vec::new();
    // seeded prior history on related positions (same root, positions along a playout, stopped searches)
    let (fen, moves) = gen_position(&mut rng, true);
    let fen_s = fen.clone().unwrap_or_else(|| super::corpus::STARTPOS.to_string());
    let prior = rng.range(0, 4);
    for _ in 0..prior {
        let mut st = if rng.chance(2, 3) {
            // same game, a few plies earlier or later
            let cut = rng.below(moves.len() as u64 + 1) as usize;
            let mut m: Vec<String> = moves[..cut].to_vec();
            m.extend(playout_from(&fen_s, &m, rng.range(0, 3) as usize, &mut rng));
            let white = side_to_move_is_white(&fen, &m);
            let (go, stop_at_poll, move_overhead) = gen_limit_b(&mut rng, white, poll_interval, tau_ps, 5);
            SearchStep { fen: fen_s.clone(), moves: m, go, move_overhead, stop_at_poll, resize_mb: None, reset: false, clock_events: vec![] }
        } else {
            gen_step(&mut rng, poll_interval, tau_ps, 5, true)
        };
        if rng.chance(1, 10) {
            st.resize_mb = Some(*rng.pick(&[1usize, 2, 3]));
        }
        steps.push(st);
    }
    // sometimes the monitored position is the "twin" of the position searched just before: same
    // placement, fewer castling rights (the hash move is played without a legality test)
    let (fen, moves) = {
        let mut fm = (fen, moves);
        if rng.chance(1, 8) {
            // the children after a double pawn push, without the en-passant right they had inside the
            // tree of the search just before; all but one searched shallowly, the last one monitored
            for _ in 0..6 {
                let first = SearchStep { fen: fm.0.clone().unwrap_or_else(|| super::corpus::STARTPOS.to_string()), moves: fm.1.clone(), go: GoSpec::depth(rng.range(5, max_depth as u64) as u8), move_overhead: 0, stop_at_poll: None, resize_mb: None, reset: false, clock_events: vec![] };
                let mut twins = children_without_ep_right(&first);
                if twins.is_empty() {
                    fm = gen_position(&mut rng, false);
                    continue;
                }
                steps.push(first);
                let last = twins.swap_remove(rng.below(twins.len() as u64) as usize);
                for t in twins.into_iter().take(3) {
                    steps.push(SearchStep { fen: t, moves: vec![], go: GoSpec::depth(rng.range(1, 3) as u8), move_overhead: 0, stop_at_poll: None, resize_mb: None, reset: false, clock_events: vec![] });
                }
                fm = (Some(last), vec![]);
                break;
            }
        } else if rng.chance(1, 6) {
            let castling = super::corpus::EXTRA.iter().copied().filter(|f| f.split_whitespace().nth(2).map(|r| r.len() >= 2).unwrap_or(false)).collect::<Vec<_>>();
            let base = rng.pick(&castling).to_string();
            let first = SearchStep { fen: base.clone(), moves: vec![], go: GoSpec::depth(rng.range(2, 5) as u8), move_overhead: 0, stop_at_poll: None, resize_mb: None, reset: false, clock_events: vec![] };
            let shuffled = if rng.chance(1, 3) { shuffle_away_rights(&first, &mut rng) } else { None };
            if let Some(moves) = shuffled {
                steps.push(first);
                fm = (Some(base), moves);
            } else if let Some(twin) = twin_with_fewer_rights(&first, &mut rng) {
                steps.push(first);
                fm = (Some(twin), vec![]);
            }
        }
        fm
    };
    let fen_s = fen.clone().unwrap_or_else(|| super::corpus::STARTPOS.to_string());
    // the monitored search: deeper, depth-limited or cancelled
    let white = side_to_move_is_white(&fen, &moves);
    let (go, stop_at_poll) = if rng.chance(4, 5) {
        // rare PV shapes (a discarded full-window line followed by a leaf sibling) need depth 6-8
        let d = match rng.below(10) {
            0..=2 => rng.range(3, 5),
            3..=7 => rng.range(6, 7),
            _ => max_depth as u64,
        };
        // the smallest limit a GUI can ask for: no iteration may be reported at all
        let d = if rng.chance(1, 80) { 0 } else { d.min(max_depth as u64) };
        (GoSpec::depth(d as u8), None)
    } else {
        let (g, s, _) = gen_limit_b(&mut rng, white, poll_interval, tau_ps, max_depth);
        (g, s)
    };
    steps.push(SearchStep { fen: fen_s, moves, go, move_overhead: 0, stop_at_poll, resize_mb: None, reset: false, clock_events: vec![] });
    ScenarioB { initial_hash_mb, poll_interval, tau_ps, clock_read_step_ns: gen_read_step(&mut rng), steps }
}

fn playout_from(fen: &str, moves: &[String], plies: usize, rng: &mut Rng) -> Vec<String> {
    let Ok(g) = super::oracle::build_position(Some(fen), moves) else { return vec![] };
    let f = g.to_fen();
    // continue from the reached position; the caller appends to `moves`
    let _ = f;
    let mut game = g;
    let mut out = Vec::new();
    for _ in 0..plies {
        let legal = game.moves();
        if legal.is_empty() {
            break;
        }
        let mv = legal[rng.below(legal.len() as u64) as usize];
        let mut n = game.clone();
        n.make_move(mv);
        if n.moves().is_empty() {
            break;
        }
        out.push(super::oracle::move_str(mv));
        game = n;
    }
    out
}

pub fn run_c08(ctx: &Ctx, run: u64) -> RunReport {
    let mut rep = RunReport { run, ..Default::default() };
    // one run in five drives the monitor through the UCI text of a World A session instead
    if run % 5 == 4 {
        let mut c = ctx.clone();
        c.property = "C08".into();
        let sc = gen_c08_a(&c, run);
        let out = run_a(&sc, false);
        let nontrivial = out.gos.iter().any(|g| !g.infos.is_empty());
        rep.agg.add("info_lines_checked", out.gos.iter().map(|g| g.infos.len() as u64).sum());
        absorb_a(ctx, &mut rep, &sc, &out, nontrivial);
        return rep;
    }
    let sc = gen_c08(ctx, run);
    let out = run_b(&sc, &BOptions { node_cap: NON_TERMINATION_NODES, keep_infos: 4 });
    let nontrivial = out.stats.infos > 0;
    absorb_b(ctx, &mut rep, &sc, &out, nontrivial);
    if run % 499 == 0 {
        rep.sample = Some(sample_b(&sc, &out));
    }
    rep
}

/// World A flavour of the C08 workload: mate-rich positions, the lines are parsed from `info` text.
pub fn gen_c08_a(ctx: &Ctx, run: u64) -> ScenarioA {
    let mut rng = Rng::derive(ctx.seed, run, "c08a");
    let mut krng = Rng::derive(ctx.seed, run, "c08a.knobs");
    let knobs = gen_knobs(&mut krng);
    let mut script = Vec::new();
    for round in 0..rng.range(1, 5) {
        if round > 0 && rng.chance(1, 4) {
            // a new game on the position just analysed: the GUI sends the very same position line again
            script.push(Intent::UciNewGame);
        } else {
            if rng.chance(1, 5) {
                script.push(Intent::UciNewGame);
            }
            let (fen, moves) = gen_position(&mut rng, true);
            script.push(Intent::Position { fen, moves });
        }
        match rng.below(4) {
            0 => {
                script.push(Intent::Go(GoSpec::infinite()));
                script.push(Intent::WaitPolls(rng.range(1, 12)));
                script.push(Intent::Stop);
            }
            _ => script.push(Intent::Go(GoSpec::depth(rng.range(2, 6) as u8))),
        }
        // the GUI keeps pinging while the engine reports: both threads write to the same stdout
        for _ in 0..rng.range(0, 6) {
            script.push(Intent::IsReady);
        }
        if rng.chance(1, 2) {
            script.push(Intent::PlayBest);
            script.push(Intent::Go(GoSpec::depth(rng.range(1, 5) as u8)));
        }
    }
    script.push(Intent::WaitBestmove);
    script.push(Intent::Quit);
    ScenarioA { script, knobs, clock_events: vec![], sched_seed: Rng::derive(ctx.seed, run, "c08a.sched").next_u64(), schedule: None }
}

// =================================================================================================
// C09 — stopping is safe at every instant (crash-point enumeration over the poll index)
// =================================================================================================

#[derive(Clone, Debug)]
pub struct C09Plan {
    /// a deep target: its crash points are thinned harder (each execution is expensive)
    pub deep: bool,
    pub base: ScenarioB,
    /// index of the search that is cancelled
    pub target: usize,
    /// how the cancellation reaches the search: the flag (stop) or the clock (expired limit)
    pub via_clock: bool,
}

pub fn gen_c09(ctx: &Ctx, run: u64) -> C09Plan {
    let mut rng = Rng::derive(ctx.seed, run, "c09");
    // one scenario in four runs with the shipped interval (exactly the property's quantifier), the
    // others with the knob so that the stop also lands inside the first iteration
    let poll_interval = if run % 4 == 0 { None } else { Some(*rng.pick(&[1u64, 7, 7, 50, 50, 200])) };
    let tau_ps = gen_tau(&mut rng);
    let initial_hash_mb = *rng.pick(&[0usize, 1, 1, 2, 3, 16]);
    // depth chosen so that the number of polls K stays enumerable
    let target_depth: u8 = match poll_interval {
        None => rng.range(5, if ctx.thorough() { 8 } else { 7 }) as u8,
        Some(1) => rng.range(1, 2) as u8,
        Some(7) => rng.range(2, 3) as u8,
        Some(50) => rng.range(3, 4) as u8,
        _ => rng.range(4, 5) as u8,
    };
    let mut steps = Vec::new();
    // prior history that fills the tables
    for _ in 0..rng.range(0, 3) {
        steps.push(gen_step(&mut rng, poll_interval, tau_ps, 4, false));
    }
    let mate_bias = rng.chance(1, 3);
    let (mut fen, mut moves) = gen_position(&mut rng, mate_bias);
    // with the shipped interval, sometimes a deep search of a small ending (pruning and verification
    // paths that only exist at high remaining depth)
    let mut target_depth = target_depth;
    let mut deep = false;
    if poll_interval.is_none() && rng.chance(1, 8) {
        deep = true;
        let endings: Vec<&str> = super::corpus::all().into_iter().filter(|f| f.split(' ').next().unwrap().chars().filter(|c| c.is_alphabetic()).count() <= 9).collect();
        fen = Some(rng.pick(&endings).to_string());
        moves = vec![];
        target_depth = rng.range(9, 10) as u8;
    }
    // the cancelled search runs under each kind of limit (depth only / fixed move time / clocks, the
    // time limits far in the future), and the cancellation reaches it through the stop flag or —
    // for the timed kinds — through the simulated clock jumping past the limit at poll k
    let mut go = GoSpec::depth(target_depth);
    let kind = rng.below(3);
    match kind {
        1 => go.movetime = Some(3_600_000),
        2 => {
            go.wtime = Some(7_200_000);
            go.btime = Some(7_200_000);
            if rng.chance(1, 2) {
                go.movestogo = Some(1);
            }
        }
        _ => {}
    }
    let via_clock = kind != 0 && rng.chance(1, 2);
    let target = steps.len();
    steps.push(SearchStep {
        fen: fen.clone().unwrap_or_else(|| super::corpus::STARTPOS.to_string()),
        moves: moves.clone(),
        go,
        move_overhead: 0,
        stop_at_poll: None,
        resize_mb: None,
        reset: false,
        clock_events: vec![],
    });
    // follow-up search on the same tables: same position, the position after a move, or another one
    let mut follow = match rng.below(3) {
        0 => {
            let mut st = steps[target].clone();
            st.go = GoSpec::depth(rng.range(1, (target_depth as u64 + 1).min(6)) as u8);
            st
        }
        1 => {
            let mut m = moves.clone();
            m.extend(playout_from(&steps[target].fen, &moves, rng.range(1, 2) as usize, &mut rng));
            SearchStep { moves: m, go: GoSpec::depth(rng.range(1, 5) as u8), ..steps[target].clone() }
        }
        _ => {
            let mut st = gen_step(&mut rng, poll_interval, tau_ps, 4, false);
            st.go = GoSpec::depth(rng.range(1, 4) as u8);
            st.stop_at_poll = None;
            st.clock_events.clear();
            st
        }
    };
    follow.stop_at_poll = None;
    follow.clock_events.clear();
    steps.push(follow);
    // damage to the shared tables may only show in a later search: sometimes a third one, on the
    // cancelled search's own position
    if rng.chance(1, 3) {
        let mut third = steps[target].clone();
        third.go = GoSpec::depth(rng.range(2, (target_depth as u64 + 1).min(6)) as u8);
        third.stop_at_poll = None;
        third.clock_events.clear();
        steps.push(third);
    }
    C09Plan { deep, base: ScenarioB { initial_hash_mb, poll_interval, tau_ps, clock_read_step_ns: gen_read_step(&mut rng), steps }, target, via_clock }
}

/// The scenario with the cancellation placed at poll k of the target search.
pub fn c09_with_k(plan: &C09Plan, k: u64) -> ScenarioB {
    let mut sc = plan.base.clone();
    if plan.via_clock {
        sc.steps[plan.target].clock_events = vec![ClockEventS { search: 0, poll: k, fault: ClockFaultS::Jump { ns: 4_000_000_000_000 } }];
    } else {
        sc.steps[plan.target].stop_at_poll = Some(k);
    }
    sc
}

const C09_MAX_K: u64 = 160;

pub fn run_c09(ctx: &Ctx, run: u64) -> RunReport {
    let mut rep = RunReport { run, ..Default::default() };
    // one run in four delivers a real `stop` command through the UCI loop instead
    if run % 4 == 3 {
        let sc = gen_c09_a(ctx, run);
        let out = run_a(&sc, false);
        let nontrivial = out.searches.iter().any(|s| s.first_stop.is_some());
        let mut o2 = out;
        judge_a(ctx, &sc, &mut o2, &mut rep.agg);
        absorb_a(ctx, &mut rep, &sc, &o2, nontrivial);
        return rep;
    }
    let plan = gen_c09(ctx, run);
    let opts = BOptions { node_cap: NON_TERMINATION_NODES, keep_infos: 2 };
    // 1. unstopped reference run: K polls
    let reference = run_b(&plan.base, &opts);
    rep.evaluations += 1;
    rep.fingerprints.push((reference.fingerprint, false));
    rep.agg.absorb_b(&reference.stats);
    if reference.harness_error.is_some() || reference.inconclusive.is_some() || !reference.found.is_empty() {
        // the unstopped run itself misbehaves: that is C04/C08 territory; report what bears on C09
        let mut r2 = reference;
        judge_b(ctx, &plan.base, &mut r2);
        let mut tmp = RunReport::default();
        absorb_b(ctx, &mut tmp, &plan.base, &r2, false);
        rep.violations.extend(tmp.violations);
        rep.other_observations.extend(tmp.other_observations);
        rep.inconclusive.extend(tmp.inconclusive);
        rep.harness_errors.extend(tmp.harness_errors);
        return rep;
    }
    let Some(target_rec) = reference.steps.iter().find(|s| s.index == plan.target) else {
        rep.agg.add("probe.c09_target_skipped", 1);
        return rep;
    };
    let k_total = target_rec.rec.polls;
    rep.agg.add("c09.scenarios", 1);
    rep.agg.add("c09.polls_of_unstopped_targets", k_total);
    rep.agg.max("max.c09_polls_per_target", k_total);
    // 2. every k = 1 … K (all of them up to the cap, evenly thinned beyond it)
    let max_k = if plan.deep { 48 } else { C09_MAX_K };
    let ks: Vec<u64> = if k_total <= max_k {
        (1..=k_total).collect()
    } else {
        rep.agg.add("c09.scenarios_with_thinned_enumeration", 1);
        let head = max_k * 2 / 5;
        let mut v: Vec<u64> = (1..=head).collect();
        let rest = max_k - head;
        for j in 0..rest {
            v.push(head + 1 + j * (k_total - head - 1) / rest.max(1));
        }
        v.push(k_total);
        v.sort();
        v.dedup();
        v
    };
    for k in ks {
        let sc = c09_with_k(&plan, k);
        let mut out = run_b(&sc, &opts);
        rep.agg.add("c09.crash_points", 1);
        // reach probes: where did the cancellation land?
        if let Some(t) = out.steps.iter().find(|s| s.index == plan.target) {
            if t.infos.is_empty() && t.rec.first_stop.is_some() || (t.rec.forced_at.is_some() && t.transcript.is_empty()) {
                rep.agg.add("probe.cancelled_before_first_iteration_completed", 1);
            }
            if t.rec.forced_at.is_some() && t.rec.first_stop.is_none() {
                rep.agg.add("probe.cancelled_between_iterations", 1);
            }
            if plan.via_clock && t.rec.first_stop.is_some() {
                rep.agg.add("probe.cancelled_by_expired_limit", 1);
            }
        }
        judge_b(ctx, &sc, &mut out);
        absorb_b(ctx, &mut rep, &sc, &out, true);
        if !rep.violations.is_empty() {
            break;
        }
    }
    if run % 211 == 0 {
        rep.sample = Some(json!({
            "target": plan.base.steps[plan.target].fen, "moves_before": plan.base.steps[plan.target].moves.len(),
            "go": plan.base.steps[plan.target].go.line(), "poll_interval": plan.base.poll_interval, "via_clock": plan.via_clock,
            "prior_searches": plan.target, "polls_of_unstopped_run_K": k_total, "follow_up": plan.base.steps[plan.target + 1].go.line(),
        }));
    }
    rep
}

/// In the C09 workload a broken line or illegal move in the *follow-up* search is a C09 failure
/// ("the shared tables remain usable").
fn retag_for_c09(found: Vec<Found>, _target: usize) -> Vec<Found> {
    found
        .into_iter()
        .map(|f| {
            if class_bears_on(&f.class, "C08") {
                Found { class: "followup-line".into(), message: format!("after a cancelled search: {}", f.message), signature: format!("followup-line {}", f.class) }
            } else {
                f
            }
        })
        .collect()
}

/// World A flavour: a real `stop` command whose arrival poll is decided by the scheduler.
pub fn gen_c09_a(ctx: &Ctx, run: u64) -> ScenarioA {
    let mut rng = Rng::derive(ctx.seed, run, "c09a");
    let mut krng = Rng::derive(ctx.seed, run, "c09a.knobs");
    let knobs = gen_knobs(&mut krng);
    let mut script = Vec::new();
    for _ in 0..rng.range(1, 4) {
        let (fen, moves) = gen_position(&mut rng, false);
        script.push(Intent::Position { fen, moves });
        script.push(Intent::Go(if rng.chance(1, 2) { GoSpec::infinite() } else { GoSpec::depth(rng.range(4, 6) as u8) }));
        script.push(Intent::WaitPolls(rng.range(0, 25)));
        script.push(Intent::Stop);
        script.push(Intent::WaitBestmove);
        // follow-up on the same tables
        if rng.chance(1, 2) {
            script.push(Intent::PlayBest);
        }
        script.push(Intent::Go(GoSpec::depth(rng.range(1, 4) as u8)));
        script.push(Intent::WaitBestmove);
    }
    script.push(Intent::Quit);
    ScenarioA { script, knobs, clock_events: vec![], sched_seed: Rng::derive(ctx.seed, run, "c09a.sched").next_u64(), schedule: None }
}

// =================================================================================================
// C19 — the transposition table never confuses positions and keeps honest statistics
// =================================================================================================

pub fn run_c19(ctx: &Ctx, run: u64) -> RunReport {
    use super::ttmodel;
    let mut rep = RunReport { run, ..Default::default() };
    if run % 10 == 9 {
        // the table as real search sessions leave it: after reset / resize it must be empty
        let mut c = ctx.clone();
        c.property = "C04".into();
        let mut sc = gen_c04(&c, run);
        sc.steps.truncate(8);
        for (i, st) in sc.steps.iter_mut().enumerate() {
            if i % 2 == 1 {
                if i % 4 == 1 {
                    st.reset = true;
                } else {
                    st.resize_mb = Some([1usize, 2, 0, 3][(run as usize / 10 + i) % 4]);
                }
            }
        }
        let out = run_b(&sc, &BOptions { node_cap: NON_TERMINATION_NODES, keep_infos: 1 });
        absorb_b(ctx, &mut rep, &sc, &out, out.stats.searches > 0);
        return rep;
    }
    if run % 10 == 8 {
        // the fill indicator as the UCI text shows it: after `ucinewgame` (sent right after bestmove,
        // the scheduler decides what the finished search thread still holds) the table must be empty
        let sc = gen_c19_a(ctx, run);
        let mut out = run_a(&sc, false);
        judge_a(ctx, &sc, &mut out, &mut rep.agg);
        absorb_a(ctx, &mut rep, &sc, &out, out.stats.searches > 1);
        return rep;
    }
    let mut rng = Rng::derive(ctx.seed, run, "c19");
    let sc = ttmodel::gen_tt(&mut rng, ctx.thorough(), run);
    let out = ttmodel::run_tt(&sc);
    rep.evaluations += 1;
    rep.fingerprints.push((out.fingerprint, out.ops >= 10));
    rep.agg.add("executions.tt_history", 1);
    rep.agg.add("tt.operations", out.ops);
    for (k, v) in &out.probes {
        rep.agg.add(&format!("probe.{k}"), *v);
    }
    if let Some(h) = out.found.iter().find(|f| f.class == "harness-panic") {
        rep.harness_errors.push(h.message.clone());
    }
    found_to_report(ctx, &mut rep, &out.found, &Scenario::T(sc.clone()), out.fingerprint);
    if run % 997 == 0 {
        rep.sample = Some(json!({"initial_mb": sc.initial_mb, "operations": sc.ops.len(), "first_operations": sc.ops.iter().take(12).map(|o| format!("{o:?}")).collect::<Vec<_>>()}));
    }
    rep
}

// =================================================================================================
// C13 — every advertised option value is accepted and survivable
// =================================================================================================

fn gen_pick(rng: &mut Rng) -> ValuePick {
    // large tables cost real memory and time (Hash 1024 = 1 GB zero-filled): rare, but present
    match rng.weighted(&[150, 200, 7, 7, 7, 590, 15, 24]) {
        0 => ValuePick::Min,
        1 => ValuePick::MinPlus(rng.range(1, 3) as i64),
        2 => ValuePick::Default,
        3 => ValuePick::Max,
        4 => ValuePick::MaxMinus(rng.range(1, 3) as i64),
        // interior, skewed towards the low end (table sizes cost memory)
        5 => ValuePick::Fraction(rng.range(0, 30_000) as u32),
        6 => ValuePick::Fraction(rng.range(0, 1_000_000) as u32),
        _ => ValuePick::Fraction(rng.range(30_000, 130_000) as u32),
    }
}

pub fn gen_c13(ctx: &Ctx, run: u64) -> ScenarioA {
    let mut rng = Rng::derive(ctx.seed, run, "c13");
    let mut krng = Rng::derive(ctx.seed, run, "c13.knobs");
    let mut knobs = gen_knobs(&mut krng);
    // the shipped default table in a few runs, a small one otherwise (the sessions set sizes anyway)
    if rng.chance(1, 200) {
        knobs.initial_hash_mb = None;
    }
    let mut script = vec![Intent::Uci];
    let rounds = rng.range(1, 5);
    let mut cur: (Option<String>, Vec<String>) = (None, vec![]);
    for _ in 0..rounds {
        // a burst of option changes, in seeded order, before the first / between searches
        for _ in 0..rng.range(1, 4) {
            let again = script.iter().rev().find(|i| matches!(i, Intent::SetSpin { .. })).cloned();
            match again {
                // the same value once more, or the same option with another value right away
                Some(prev) if rng.chance(1, 6) => script.push(prev),
                Some(Intent::SetSpin { name, .. }) if rng.chance(1, 6) => script.push(Intent::SetSpin { name, pick: gen_pick(&mut rng) }),
                _ => script.push(Intent::SetSpin { name: format!("#{}", rng.below(8)), pick: gen_pick(&mut rng) }),
            }
            if rng.chance(2, 3) {
                script.push(Intent::IsReady);
            }
        }
        if rng.chance(1, 6) {
            script.push(Intent::UciNewGame);
        }
        if rng.chance(1, 12) {
            script.push(Intent::Raw(if rng.chance(2, 3) { "debug on".into() } else { "debug off".into() }));
        }
        // a `stop` while idle is legal at any time
        if rng.chance(1, 10) {
            script.push(Intent::Stop);
        }
        if rng.chance(3, 4) {
            let (fen, moves) = gen_position(&mut rng, false);
            cur = (fen.clone(), moves.clone());
            script.push(Intent::Position { fen, moves });
        }
        let white = side_to_move_is_white(&cur.0, &cur.1);
        // timed searches run to their limit: keep them short in simulated time (and out of runs
        // that poll at every node), so that Move Overhead matters without costing much
        let fine_polls = matches!(knobs.poll_interval, Some(1) | Some(7));
        let max_ms = (60_000u128 * knobs.tau_ps as u128 / 1_000_000_000).max(2) as u64;
        let go = match rng.below(4) {
            0 if !fine_polls => {
                let mut g = gen_clock_go(&mut rng, white);
                for t in [&mut g.wtime, &mut g.btime] {
                    if let Some(v) = t {
                        *v = (*v).min(max_ms * 2);
                    }
                }
                g
            }
            1 if !fine_polls => GoSpec::movetime(rng.range(0, max_ms)),
            _ => GoSpec::depth(rng.range(1, 4) as u8),
        };
        script.push(Intent::Go(go));
        // sometimes the next option change comes right after bestmove (the scheduler decides
        // whether the search thread has released the tables yet), sometimes after an isready
        if rng.chance(1, 2) {
            script.push(Intent::WaitBestmove);
            script.push(Intent::IsReady);
        }
    }
    script.push(Intent::WaitBestmove);
    script.push(Intent::IsReady);
    script.push(Intent::Quit);
    ScenarioA { script, knobs, clock_events: vec![], sched_seed: Rng::derive(ctx.seed, run, "c13.sched").next_u64(), schedule: None }
}

pub fn run_c13(ctx: &Ctx, run: u64) -> RunReport {
    let mut rep = RunReport { run, ..Default::default() };
    let sc = gen_c13(ctx, run);
    let mut out = run_a(&sc, false);
    judge_a(ctx, &sc, &mut out, &mut rep.agg);
    for o in &out.spin_options {
        rep.agg.max(&format!("max.advertised.{}.max", o.name.replace(' ', "_")), o.max as u64);
    }
    let nontrivial = out.stats.searches > 0 && out.stats.probes.get("setoption_from_advertised_range").copied().unwrap_or(0) > 0;
    absorb_a(ctx, &mut rep, &sc, &out, nontrivial);
    if run % 499 == 0 {
        let mut smp = sample_a(&sc, &out);
        smp["commands_sent"] = json!(out.transcript.len());
        rep.sample = Some(smp);
    }
    rep
}

// =================================================================================================
// C14 — time allocation never exceeds what the clock allows
// =================================================================================================

const C14_R: [u64; 18] = [0, 1, 5, 10, 50, 99, 100, 150, 199, 200, 201, 500, 1_000, 60_000, 3_600_000, 86_400_000, 4_294_967_296, 1_099_511_627_776];

fn gen_c14_tuple(rng: &mut Rng, white_to_move: bool) -> (GoSpec, u64) {
    // remaining time of the side to move
    let r = if rng.chance(3, 4) { *rng.pick(&C14_R) } else { rng.range(0, 400_000) };
    let inc = match rng.below(8) {
        0 => None,
        1 => Some(0),
        2 => Some(1),
        3 => Some(10),
        4 => Some(100),
        5 => Some(1_000),
        6 => Some(10_000),
        _ => Some(10 * r),
    };
    let mtg = match rng.below(9) {
        0..=2 => None,
        3 => Some(1),
        4 => Some(2),
        5 => Some(5),
        6 => Some(40),
        7 => Some(100),
        _ => Some(1_000),
    };
    let overhead = match rng.below(6) {
        0 | 1 => 0,
        2 => 1.min(r / 2),
        3 => 10.min(r / 2),
        4 => (r / 2).min(1_000),
        _ => rng.range(0, (r / 2).min(1_000)),
    };
    let mut g = GoSpec::default();
    let opp = if rng.chance(1, 4) { None } else { Some(rng.range(0, 4_000_000)) };
    let opp_inc = if rng.chance(1, 2) { None } else { Some(rng.range(0, 20_000)) };
    if white_to_move {
        g.wtime = Some(r);
        g.btime = opp;
        g.winc = inc;
        g.binc = opp_inc;
    } else {
        g.btime = Some(r);
        g.wtime = opp;
        g.binc = inc;
        g.winc = opp_inc;
    }
    // only the opponent's clock supplied: the side to move has "no time" (treated as 0)
    if rng.chance(1, 25) && opp.is_some() {
        if white_to_move {
            g.wtime = None;
        } else {
            g.btime = None;
        }
    }
    g.movestogo = mtg;
    // the opponent may have overstepped (a GUI that does not enforce the flag sends a negative clock)
    if rng.chance(1, 20) {
        if white_to_move && g.btime.is_some() {
            g.btime = Some(rng.range(1, 5_000));
            g.btime_negative = true;
        } else if !white_to_move && g.wtime.is_some() {
            g.wtime = Some(rng.range(1, 5_000));
            g.wtime_negative = true;
        }
    }
    (g, overhead)
}

pub fn gen_c14(ctx: &Ctx, run: u64) -> ScenarioA {
    let mut rng = Rng::derive(ctx.seed, run, "c14");
    let mut script = Vec::new();
    let flag_fall = run % 4 == 3;
    let mut knobs = Knobs::default();
    knobs.initial_hash_mb = Some(1);
    knobs.policy = gen_policy(&mut rng);
    let mut clock_events = Vec::new();
    if !flag_fall {
        // (1) limits invariant: many tuples per session, each search cancelled at once
        knobs.poll_interval = Some(1);
        knobs.tau_ps = 1_000_000;
        let mut cur: (Option<String>, Vec<String>) = (None, vec![]);
        for _ in 0..rng.range(8, 30) {
            if rng.chance(1, 3) {
                let (fen, moves) = gen_position(&mut rng, false);
                cur = (fen.clone(), moves.clone());
                script.push(Intent::Position { fen, moves });
            }
            let white = side_to_move_is_white(&cur.0, &cur.1);
            if rng.chance(1, 8) {
                // "a fixed move time is used as given", whatever the configured overhead
                script.push(Intent::SetOption { name: "Move Overhead".into(), value: rng.pick(&["0", "0", "1", "50", "300", "1000"]).to_string() });
                script.push(Intent::Go(GoSpec::movetime(*rng.pick(&[0u64, 1, 10, 100, 1_000, 60_000, 86_400_000]))));
            } else {
                let (g, overhead) = gen_c14_tuple(&mut rng, white);
                script.push(Intent::SetOption { name: "Move Overhead".into(), value: overhead.to_string() });
                // options are independent of each other, in whatever order they are sent
                if rng.chance(1, 8) {
                    script.push(Intent::SetOption { name: "Threads".into(), value: "1".into() });
                }
                if rng.chance(1, 8) {
                    script.push(Intent::SetOption { name: "Hash".into(), value: rng.pick(&["1", "2", "4"]).to_string() });
                }
                script.push(Intent::Go(g));
            }
            script.push(Intent::Stop);
            script.push(Intent::WaitBestmove);
        }
    } else {
        // (2) return before flag fall, R >= 200 ms, under a slow / stalled search thread
        knobs.tau_ps = gen_tau(&mut rng);
        let mut n_search = 0;
        let mut min_r = u64::MAX;
        // rarely: the timed search is the 255th..257th of a long session on a large table (work that
        // only happens every 256 searches must not come out of that search's clock)
        if rng.chance(1, 40) {
            script.push(Intent::SetOption { name: "Hash".into(), value: rng.pick(&["256", "1024"]).to_string() });
            let (fen, moves) = gen_position(&mut rng, false);
            script.push(Intent::Position { fen, moves });
            for _ in 0..rng.range(254, 256) {
                script.push(Intent::Go(GoSpec::depth(1)));
                script.push(Intent::WaitBestmove);
                n_search += 1;
            }
        }
        for _ in 0..rng.range(1, 4) {
            // sometimes the GUI changes the table size right after the previous bestmove (the
            // scheduler decides whether the finished search thread has released the tables yet);
            // whatever the engine does with it must not come out of the next search's clock
            if n_search > 0 && rng.chance(1, 5) {
                script.push(Intent::SetOption { name: "Hash".into(), value: rng.pick(&["64", "256", "512", "1024"]).to_string() });
            }
            let (fen, moves) = gen_position(&mut rng, false);
            let white = side_to_move_is_white(&fen, &moves);
            script.push(Intent::Position { fen, moves });
            // keep the worst case (search runs to the hard limit) below ~600 k nodes
            let max_r = (1_200_000u128 * knobs.tau_ps as u128 / 1_000_000_000).max(200) as u64;
            let r = rng.range(200, max_r.max(201));
            min_r = min_r.min(r);
            let mut g = GoSpec::default();
            let inc = if rng.chance(1, 2) { Some(*rng.pick(&[0u64, 10, 100, 1_000, 10_000])) } else { None };
            // the opponent's clock is absent in a quarter of the searches
            let opp = if rng.chance(1, 4) { None } else { Some(rng.range(0, 100_000)) };
            if white {
                g.wtime = Some(r);
                g.winc = inc;
                g.btime = opp;
            } else {
                g.btime = Some(r);
                g.binc = inc;
                g.wtime = opp;
            }
            g.movestogo = *rng.pick(&[None, None, Some(1u32), Some(2), Some(5), Some(40)]);
            // a GUI configured with both a clock and a depth cap sends both: the clock still binds
            if rng.chance(1, 5) {
                g.depth = Some(rng.range(20, 60) as u8);
            }
            let overhead = if rng.chance(1, 2) { 0 } else { rng.range(0, (r / 2).min(1_000)) };
            script.push(Intent::SetOption { name: "Move Overhead".into(), value: overhead.to_string() });
            if rng.chance(1, 6) {
                script.push(Intent::SetOption { name: rng.pick(&["Hash", "Threads"]).to_string(), value: "1".into() });
            }
            script.push(Intent::Go(g));
            script.push(Intent::WaitBestmove);
            n_search += 1;
        }
        // environment assumption: per-poll latency (interval * tau + stall) <= R/4
        let budget_ns = min_r * 1_000_000 / 4;
        let mut interval = gen_poll_interval(&mut rng).unwrap_or(10_000);
        while (interval as u128 * knobs.tau_ps as u128 / 1000) as u64 > budget_ns / 2 && interval > 1 {
            interval /= 2;
        }
        knobs.poll_interval = if interval == 10_000 { None } else { Some(interval) };
        let per_poll = (interval as u128 * knobs.tau_ps as u128 / 1000) as u64;
        let max_stall = budget_ns.saturating_sub(per_poll);
        if max_stall > 10_000 && rng.chance(2, 3) {
            let n_faults = rng.range(1, 4);
            for _ in 0..n_faults {
                let share = (max_stall / n_faults).max(1_001);
                let fault = if rng.chance(1, 2) { ClockFaultS::Stall { ns: rng.range(1_000, share) } } else { ClockFaultS::Jump { ns: rng.range(1_000, share) } };
                clock_events.push(ClockEventS { search: rng.below(n_search) as usize, poll: rng.range(1, 30), fault });
            }
        }
    }
    script.push(Intent::Quit);
    ScenarioA { script, knobs, clock_events, sched_seed: Rng::derive(ctx.seed, run, "c14.sched").next_u64(), schedule: None }
}

pub fn run_c14(ctx: &Ctx, run: u64) -> RunReport {
    let mut rep = RunReport { run, ..Default::default() };
    let sc = gen_c14(ctx, run);
    let mut out = run_a(&sc, false);
    let tuples = judge_a(ctx, &sc, &mut out, &mut rep.agg);
    let nontrivial = tuples > 0;
    absorb_a(ctx, &mut rep, &sc, &out, nontrivial);
    if run % 499 == 0 || run % 499 == 3 {
        let mut smp = sample_a(&sc, &out);
        smp["limits"] = json!(out.gos.iter().take(6).filter_map(|g| out.searches.get(g.ordinal).map(|r| format!("{} -> soft {} us hard {} us", g.spec.line(), r.limits.soft_ns / 1000, r.limits.hard_ns / 1000))).collect::<Vec<_>>());
        rep.sample = Some(smp);
    }
    rep
}

// =================================================================================================
// C12 — same state, same search; ucinewgame means a fresh engine
// =================================================================================================

/// Per-search transcripts: info/bestmove lines with `time` and `nps` removed.  `readyok` and error
/// lines are not part of a search's transcript (their position relative to info lines depends on
/// the schedule by design).
pub fn search_transcript(out: &OutcomeA) -> Vec<String> {
    out.transcript
        .iter()
        .filter(|l| l.starts_with("info ") || l.starts_with("bestmove"))
        .map(|l| super::oracle::strip_time_fields(l))
        .collect()
}

fn gen_c12_script(rng: &mut Rng, thorough: bool, with_newgame: bool, bare_go_after_newgame: bool) -> (Vec<Intent>, Option<usize>) {
    let mut script = Vec::new();
    let mut newgame_at = None;
    if rng.chance(1, 3) {
        script.push(Intent::SetOption { name: "Hash".into(), value: rng.pick(&["0", "1", "2", "3", "4"]).to_string() });
    }
    let mut n = rng.range(2, if thorough { 9 } else { 6 });
    let mut cut = if with_newgame { rng.range(1, n - 1) } else { u64::MAX };
    let mut last_position: Option<(Option<String>, Vec<String>)> = None;
    // a long old game now and then: the per-search counters of the tables wrap (or just do not);
    // the new game then analyses ONE position repeatedly (what the counters order are entries of
    // successive searches that meet in the same slots)
    let long_old_game = with_newgame && rng.chance(1, 25);
    if long_old_game {
        n = n.max(4);
        cut = cut.min(n - 3);
        let (fen, moves) = gen_position(rng, false);
        script.push(Intent::Position { fen, moves });
        let k = *rng.pick(&[253u32, 254, 254, 255, 256, 257, 510, 511, 512]) - cut as u32;
        for _ in 0..k {
            script.push(Intent::Go(GoSpec::depth(1)));
            script.push(Intent::WaitBestmove);
        }
    }
    // (thorough) the old game may have run the built-in benchmark, which uses tables of its own
    if with_newgame && thorough && rng.chance(1, 2000) {
        script.push(Intent::Raw("bench".into()));
    }
    for i in 0..n {
        if i == cut {
            newgame_at = Some(script.len());
            script.push(Intent::UciNewGame);
            if rng.chance(1, 4) {
                script.push(Intent::SetOption { name: "Hash".into(), value: rng.pick(&["0", "1", "2", "3"]).to_string() });
            }
        } else if rng.chance(1, 8) && !with_newgame {
            script.push(Intent::UciNewGame);
        }
        // a `stop` with nothing to stop must leave no trace in later searches
        if rng.chance(1, 6) {
            script.push(Intent::Stop);
        }
        if long_old_game && i > cut && !bare_go_after_newgame {
            // same position again (the GUI sends nothing new) or the game continues
            if rng.chance(1, 3) {
                script.push(Intent::PlayBest);
            }
        } else if rng.chance(1, 4) && i > 0 && i != cut {
            script.push(Intent::PlayBest);
        } else if i == cut && bare_go_after_newgame {
            // a bare `go` right after `ucinewgame`: a fresh engine searches the start position
        } else if i == cut && last_position.is_some() && rng.chance(1, 3) {
            // the new game is related to the old one: the same game continued by a few moves, or the
            // same placement with the colours of the pawns exchanged — a fresh engine knows nothing
            // about the old game, and neither may this one
            let (fen, moves) = last_position.clone().unwrap();
            let base = fen.clone().unwrap_or_else(|| super::corpus::STARTPOS.to_string());
            let twin = if rng.chance(1, 2) { super::oracle::build_position(Some(&base), &moves).ok().and_then(|g| pawn_colour_twin(&g.to_fen())) } else { None };
            match twin {
                Some(t) => script.push(Intent::Position { fen: Some(t), moves: vec![] }),
                None => {
                    let mut m = moves.clone();
                    m.extend(playout_from(&base, &moves, rng.range(0, 3) as usize, rng));
                    script.push(Intent::Position { fen, moves: m });
                }
            }
        } else {
            let (fen, moves) = gen_position(rng, false);
            last_position = Some((fen.clone(), moves.clone()));
            script.push(Intent::Position { fen, moves });
        }
        let before_cut = with_newgame && i < cut;
        if before_cut && rng.chance(1, 3) {
            // prefixes are arbitrary: stopped and time-limited searches too
            if rng.chance(1, 2) {
                script.push(Intent::Go(GoSpec::infinite()));
                script.push(Intent::WaitPolls(rng.range(0, 8)));
                script.push(Intent::Stop);
            } else {
                script.push(Intent::Go(GoSpec::movetime(rng.range(0, 10))));
            }
        } else if long_old_game && i >= cut {
            script.push(Intent::Go(GoSpec::depth(rng.range(3, 6) as u8)));
        } else {
            script.push(Intent::Go(gen_depth_go(rng, if thorough { 7 } else { 6 })));
        }
        if rng.chance(1, 3) {
            script.push(Intent::IsReady);
        }
        script.push(Intent::WaitBestmove);
        // prefixes are arbitrary: the table may also be resized between two searches of the old game
        if before_cut && rng.chance(1, 3) {
            script.push(Intent::IsReady);
            script.push(Intent::SetOption { name: "Hash".into(), value: rng.pick(&["1", "2", "3", "4", "8"]).to_string() });
        }
    }
    script.push(Intent::Quit);
    (script, newgame_at)
}

fn env_knobs(rng: &mut Rng) -> (Knobs, Vec<ClockEventS>) {
    let mut k = gen_knobs(rng);
    k.initial_hash_mb = None; // set by the caller
    let ev = gen_clock_events(rng, 4, 50_000_000);
    (k, ev)
}

pub fn run_c12(ctx: &Ctx, run: u64) -> RunReport {
    let mut rep = RunReport { run, ..Default::default() };
    let mut rng = Rng::derive(ctx.seed, run, "c12");
    let initial_hash = *rng.pick(&[1usize, 1, 2, 3, 16]);
    let mut digest: u64 = 0;
    if ctx.thorough() && run % 20_000 == 7 {
        // (iii) bench twice under different clocks: equal node totals
        let mut totals = Vec::new();
        for e in 0..2u64 {
            let mut er = Rng::derive(ctx.seed, run, &format!("c12.bench.{e}"));
            let (mut knobs, ev) = env_knobs(&mut er);
            knobs.initial_hash_mb = Some(1);
            // 27 million nodes: polling at (almost) every node would exhaust the scheduler step budget
            if matches!(knobs.poll_interval, Some(1) | Some(7) | Some(50)) {
                knobs.poll_interval = Some(1000);
            }
            // the second run may happen under load: another search is running on the search thread
            // while `bench` searches on the input thread (node totals must not depend on that)
            let script = if e == 1 && er.chance(1, 2) {
                rep.agg.add("c12.bench_during_a_running_search", 1);
                vec![Intent::Go(GoSpec::infinite()), Intent::WaitPolls(2), Intent::RawNow("bench".into()), Intent::Stop, Intent::Quit]
            } else {
                vec![Intent::Raw("bench".into()), Intent::Quit]
            };
            let sc = ScenarioA { script, knobs, clock_events: ev, sched_seed: er.next_u64(), schedule: None };
            let out = run_a(&sc, false);
            let line = out.transcript.iter().find(|l| !l.starts_with("info") && l.contains(" nodes ") && l.ends_with(" nps")).cloned().unwrap_or_default();
            totals.push(line.split_whitespace().next().unwrap_or("").to_string());
            absorb_a(ctx, &mut rep, &sc, &out, true);
        }
        rep.agg.add("c12.bench_pairs", 1);
        if totals[0] != totals[1] || totals[0].is_empty() {
            rep.violations.push(FoundViolation {
                violation: Violation { property: "C12".into(), class: "bench-diff".into(), message: format!("bench node totals differ between two runs: {:?}", totals), signature: "bench-diff".into() },
                scenario: Scenario::A(ScenarioA { script: vec![Intent::Raw("bench".into()), Intent::Quit], knobs: Knobs::default(), clock_events: vec![], sched_seed: 0, schedule: None }),
                fingerprint: String::new(),
            });
        }
        rep.digest = Some(super::rng::hash_str(&totals[0]));
        rep.digest_excludes_fingerprints = true;
        return rep;
    }
    let newgame_mode = run % 3 == 2;
    // in a quarter of the newgame runs the GUI sends a bare `go` after `ucinewgame` (no `position`)
    let bare_go = run % 12 == 2;
    let (script, newgame_at) = gen_c12_script(&mut rng, ctx.thorough(), newgame_mode, bare_go);
    let n_env = if ctx.thorough() { 6 } else { 3 };
    // base environment: plain clock, uniform scheduler, shipped interval
    let base = ScenarioA {
        script: script.clone(),
        knobs: Knobs { initial_hash_mb: Some(initial_hash), resend_position: !bare_go, ..Knobs::default() },
        clock_events: vec![],
        sched_seed: Rng::derive(ctx.seed, run, "c12.sched.base").next_u64(),
        schedule: None,
    };
    let base_out = run_a(&base, false);
    absorb_a(ctx, &mut rep, &base, &base_out, base_out.stats.searches > 0);
    let base_t = search_transcript(&base_out);
    for l in &base_t {
        digest = super::rng::hash_bytes(digest.rotate_left(3), l.as_bytes());
    }
    rep.digest = Some(digest);
    if base_out.harness_error.is_some() || base_out.inconclusive.is_some() {
        return rep;
    }
    if !newgame_mode {
        // (i) invariance under time, load and schedule
        for e in 0..n_env {
            let mut er = Rng::derive(ctx.seed, run, &format!("c12.env.{e}"));
            let (mut knobs, ev) = env_knobs(&mut er);
            knobs.initial_hash_mb = Some(initial_hash);
            let other = ScenarioA { script: script.clone(), knobs, clock_events: ev, sched_seed: er.next_u64(), schedule: None };
            let out = run_a(&other, false);
            absorb_a(ctx, &mut rep, &other, &out, out.stats.searches > 0);
            if out.harness_error.is_some() || out.inconclusive.is_some() {
                continue;
            }
            // a `setoption Hash` that lost the try_lock race in one environment only changes the
            // *state* the later searches start from: not comparable
            if out.refused_setoptions != base_out.refused_setoptions {
                rep.agg.add("c12.pairs_void_setoption_race", 1);
                continue;
            }
            rep.agg.add("c12.environment_pairs_compared", 1);
            let t = search_transcript(&out);
            if t != base_t {
                let at = t.iter().zip(base_t.iter()).position(|(a, b)| a != b).unwrap_or(t.len().min(base_t.len()));
                rep.violations.push(FoundViolation {
                    violation: Violation {
                        property: "C12".into(),
                        class: "transcript-diff".into(),
                        message: format!(
                            "the same depth-limited session gave different output under a different clock/schedule/load: line {at}: `{}` vs `{}`",
                            base_t.get(at).cloned().unwrap_or_else(|| "<none>".into()),
                            t.get(at).cloned().unwrap_or_else(|| "<none>".into())
                        ),
                        signature: "transcript-diff".into(),
                    },
                    scenario: Scenario::Pair { base: base.clone(), other: { let mut o = other.clone(); o.schedule = Some(out.schedule.clone()); o }, compare_from_newgame: false },
                    fingerprint: format!("{:016x}", out.fingerprint),
                });
                break;
            }
        }
    } else if let Some(at) = newgame_at {
        // (ii) ucinewgame = fresh engine with the same effective options
        // effective table size at the ucinewgame: the last Hash value set before it (if the engine
        // did not refuse it) or the initial one; a Hash set right after ucinewgame applies to both
        if base_out.refused_setoptions > 0 {
            rep.agg.add("c12.pairs_void_setoption_race", 1);
            return rep;
        }
        let mut eff = initial_hash;
        for i in &script[..at] {
            if let Intent::SetOption { name, value } = i {
                if name == "Hash" {
                    eff = value.parse().unwrap_or(eff);
                }
            }
        }
        let suffix: Vec<Intent> = script[at + 1..].to_vec();
        // PlayBest in the suffix refers to searches of the suffix only if a go precedes it there
        let mut er = Rng::derive(ctx.seed, run, "c12.fresh");
        let (mut knobs, ev) = env_knobs(&mut er);
        knobs.initial_hash_mb = Some(eff);
        knobs.resend_position = !bare_go;
        let fresh = ScenarioA { script: suffix.clone(), knobs, clock_events: ev, sched_seed: er.next_u64(), schedule: None };
        let fresh_out = run_a(&fresh, false);
        absorb_a(ctx, &mut rep, &fresh, &fresh_out, fresh_out.stats.searches > 0);
        if fresh_out.harness_error.is_some() || fresh_out.inconclusive.is_some() || fresh_out.refused_setoptions > 0 {
            return rep;
        }
        // the part of the base transcript that belongs to searches after the ucinewgame
        let n_suffix_gos = fresh_out.gos.len();
        let total_gos = base_out.gos.len();
        let fresh_t = search_transcript(&fresh_out);
        let skip_bestmoves = total_gos - n_suffix_gos.min(total_gos);
        let mut seen = 0;
        let mut idx = 0;
        for (i, l) in base_t.iter().enumerate() {
            if seen == skip_bestmoves {
                idx = i;
                break;
            }
            if l.starts_with("bestmove") {
                seen += 1;
                idx = i + 1;
            }
        }
        let base_suffix_t: Vec<String> = base_t[idx..].to_vec();
        rep.agg.add("c12.newgame_pairs_compared", 1);
        if base_suffix_t != fresh_t {
            let at2 = fresh_t.iter().zip(base_suffix_t.iter()).position(|(a, b)| a != b).unwrap_or(fresh_t.len().min(base_suffix_t.len()));
            rep.violations.push(FoundViolation {
                violation: Violation {
                    property: "C12".into(),
                    class: "newgame-not-fresh".into(),
                    message: format!(
                        "after ucinewgame the engine does not behave like a fresh one (Hash {eff}): line {at2} after the ucinewgame: `{}` vs fresh `{}`",
                        base_suffix_t.get(at2).cloned().unwrap_or_else(|| "<none>".into()),
                        fresh_t.get(at2).cloned().unwrap_or_else(|| "<none>".into())
                    ),
                    signature: "newgame-not-fresh".into(),
                },
                scenario: Scenario::Pair { base: { let mut b = base.clone(); b.schedule = Some(base_out.schedule.clone()); b }, other: { let mut o = fresh.clone(); o.schedule = Some(fresh_out.schedule.clone()); o }, compare_from_newgame: true },
                fingerprint: format!("{:016x}", fresh_out.fingerprint),
            });
        }
    }
    if run % 499 == 0 || run % 499 == 2 {
        let mut smp = sample_a(&base, &base_out);
        smp["mode"] = json!(if newgame_mode { "ucinewgame vs fresh engine" } else { "invariance under environments" });
        rep.sample = Some(smp);
    }
    rep
}
