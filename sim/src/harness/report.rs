//! What one unit of work (one seeded run of a property workload) reports back.

use super::scenario::{Scenario, Violation};
use super::worlda::{OutcomeA, StatsA};
use super::worldb::{OutcomeB, StatsB};
use serde::{Deserialize, Serialize};
use std::collections::BTreeMap;

#[derive(Clone, Debug, Serialize, Deserialize, Default)]
pub struct Agg {
    pub counters: BTreeMap<String, u64>,
}

impl Agg {
    pub fn add(&mut self, key: &str, n: u64) {
        if n > 0 {
            *self.counters.entry(key.to_string()).or_insert(0) += n;
        }
    }
    pub fn max(&mut self, key: &str, n: u64) {
        let e = self.counters.entry(key.to_string()).or_insert(0);
        if n > *e {
            *e = n;
        }
    }
    pub fn merge(&mut self, other: &Agg) {
        for (k, v) in &other.counters {
            if k.starts_with("max.") {
                self.max(k, *v);
            } else {
                self.add(k, *v);
            }
        }
    }
    pub fn absorb_a(&mut self, s: &StatsA) {
        self.add("executions.world_a", 1);
        self.add("sched.decisions", s.sched_decisions);
        self.add("sched.context_switches", s.sched_switches);
        self.add("fault.spurious_condvar_wakeup", s.spurious_wakeups);
        self.add("sched.fairness_forced", s.fairness_forced);
        self.max("max.simulated_threads", s.max_threads as u64);
        self.add("searches", s.searches);
        self.add("polls", s.polls);
        self.add("nodes", s.nodes);
        self.add("sim_ns", s.sim_ns);
        self.add("lines_out", s.lines_out);
        self.add("sim_skipped_ns", s.faults.skipped_ns);
        self.add("fault.clock_stall", s.faults.stalls);
        self.add("fault.clock_jump", s.faults.jumps);
        self.add("fault.clock_freeze", s.faults.freezes);
        self.add("fault.forced_stop_at_poll_k", s.faults.forced_stops);
        self.add("fault.stop_command", s.faults.stop_lines);
        self.add("fault.stdin_eof", s.faults.eof);
        self.add("teardown_cancellations", s.faults.teardown_stops);
        for (k, v) in &s.probes {
            self.add(&format!("probe.{k}"), *v);
        }
    }
    pub fn absorb_b(&mut self, s: &StatsB) {
        self.add("executions.world_b", 1);
        self.add("searches", s.searches);
        self.add("polls", s.polls);
        self.add("nodes", s.nodes);
        self.add("sim_ns", s.sim_ns);
        self.add("info_lines_checked", s.infos);
        self.add("mate_announcements_checked", s.mates_checked);
        self.add("pv_moves_replayed", s.pv_moves_checked);
        self.add("sim_skipped_ns", s.faults.skipped_ns);
        self.add("fault.clock_stall", s.faults.stalls);
        self.add("fault.clock_jump", s.faults.jumps);
        self.add("fault.clock_freeze", s.faults.freezes);
        self.add("fault.forced_stop_at_poll_k", s.faults.forced_stops);
        for (k, v) in &s.probes {
            self.add(&format!("probe.{k}"), *v);
        }
    }
}

#[derive(Clone, Debug, Serialize, Deserialize)]
pub struct FoundViolation {
    pub violation: Violation,
    pub scenario: Scenario,
    pub fingerprint: String,
}

#[derive(Clone, Debug, Serialize, Deserialize, Default)]
pub struct RunReport {
    pub run: u64,
    /// executions performed by this run (a run may execute several scenarios)
    pub evaluations: u64,
    /// (fingerprint, non-trivial?) per execution
    pub fingerprints: Vec<(u64, bool)>,
    pub violations: Vec<FoundViolation>,
    /// oracle failures that belong to *other* properties than the one being checked
    pub other_observations: Vec<String>,
    pub inconclusive: Vec<String>,
    pub harness_errors: Vec<String>,
    pub agg: Agg,
    pub sample: Option<serde_json::Value>,
    /// hash of the scheduler choice trace of every World A execution of this run
    pub schedule_hashes: Vec<u64>,
    /// digest of what this run observed (C12: transcripts), compared across worker processes
    pub digest: Option<u64>,
    /// the event-log fingerprints of this run contain a real wall-clock reading (the `bench` command
    /// measures its own nps with `Instant::now()`, outside every seam and outside C12): only `digest`
    /// is compared across processes
    pub digest_excludes_fingerprints: bool,
}

/// Which violation classes count against which property.
pub fn class_bears_on(class: &str, property: &str) -> bool {
    let c = class;
    match property {
        "C04" => matches!(c, "panic" | "illegal-bestmove" | "illegal-ponder" | "non-termination" | "abort" | "limit-ignored" | "missing-bestmove" | "deadlock"),
        "C05" => matches!(
            c,
            "deadlock"
                | "panic"
                | "abort"
                | "missing-readyok"
                | "unsolicited-readyok"
                | "missing-bestmove"
                | "unsolicited-bestmove"
                | "illegal-ponder"
                | "stop-not-honoured"
                | "command-stuck"
                | "limit-ignored"
                | "engine-exit"
                | "non-termination"
        ),
        "C08" => matches!(c, "report-wrong-position" | "depth-sequence" | "depth-exceeds-limit" | "pv-empty" | "pv-illegal" | "mate-length" | "mate-false" | "mate-zero" | "info-without-go"),
        "C09" => matches!(
            c,
            "continued-after-stop" | "illegal-bestmove" | "illegal-ponder" | "game-mutated" | "panic" | "abort" | "followup-illegal-bestmove" | "followup-line" | "followup-panic" | "stop-late"
        ),
        "C12" => matches!(c, "transcript-diff" | "newgame-not-fresh" | "bench-diff" | "option-refused-idle"),
        "C13" => matches!(
            c,
            "option-rejected" | "option-refused-idle" | "panic" | "abort" | "illegal-bestmove" | "missing-readyok" | "missing-bestmove" | "deadlock" | "engine-exit" | "options-not-advertised" | "stop-not-honoured" | "command-stuck" | "limit-ignored" | "illegal-ponder"
        ),
        "C14" => matches!(c, "limit-hard-exceeds-half" | "limit-soft-exceeds-hard" | "limit-movetime-not-as-given" | "flag-fall" | "limits-missing" | "limit-ignored" | "panic" | "abort" | "missing-bestmove" | "deadlock"),
        "C19" => c.starts_with("tt-") || matches!(c, "panic" | "abort"),
        _ => false,
    }
}
