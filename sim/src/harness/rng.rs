//! One integer decides everything: every random choice of run `i` is drawn from a SplitMix64 stream
//! derived by hashing (VERIF_SEED, run index, stream name).  Logging never draws from these.

#[derive(Clone, Debug)]
pub struct Rng {
    state: u64,
}

fn mix(mut z: u64) -> u64 {
    z = (z ^ (z >> 30)).wrapping_mul(0xBF58_476D_1CE4_E5B9);
    z = (z ^ (z >> 27)).wrapping_mul(0x94D0_49BB_1331_11EB);
    z ^ (z >> 31)
}

pub fn hash_str(s: &str) -> u64 {
    // FNV-1a, then mixed
    let mut h: u64 = 0xcbf2_9ce4_8422_2325;
    for b in s.as_bytes() {
        h ^= *b as u64;
        h = h.wrapping_mul(0x0000_0100_0000_01B3);
    }
    mix(h)
}

pub fn hash_bytes(h0: u64, bytes: &[u8]) -> u64 {
    let mut h = h0 ^ 0xcbf2_9ce4_8422_2325;
    for b in bytes {
        h ^= *b as u64;
        h = h.wrapping_mul(0x0000_0100_0000_01B3);
    }
    h
}

impl Rng {
    pub fn new(seed: u64) -> Self {
        Rng { state: mix(seed ^ 0x9E37_79B9_7F4A_7C15) }
    }

    /// Independent sub-stream for (seed, run, stream name).
    pub fn derive(seed: u64, run: u64, stream: &str) -> Self {
        let s = mix(seed.wrapping_add(0x9E37_79B9_7F4A_7C15))
            ^ mix(run.wrapping_mul(0xD6E8_FEB8_6659_FD93).wrapping_add(0x1234_5678_9ABC_DEF1))
            ^ hash_str(stream);
        Rng { state: mix(s) }
    }

    pub fn next_u64(&mut self) -> u64 {
        self.state = self.state.wrapping_add(0x9E37_79B9_7F4A_7C15);
        mix(self.state)
    }

    /// uniform in 0..n (n > 0)
    pub fn below(&mut self, n: u64) -> u64 {
        debug_assert!(n > 0);
        // multiply-shift; bias is irrelevant here
        ((self.next_u64() as u128 * n as u128) >> 64) as u64
    }

    /// uniform in lo..=hi
    pub fn range(&mut self, lo: u64, hi: u64) -> u64 {
        lo + self.below(hi - lo + 1)
    }

    pub fn chance(&mut self, num: u64, den: u64) -> bool {
        self.below(den) < num
    }

    pub fn pick<'a, T>(&mut self, xs: &'a [T]) -> &'a T {
        &xs[self.below(xs.len() as u64) as usize]
    }

    /// pick an index according to integer weights
    pub fn weighted(&mut self, weights: &[u64]) -> usize {
        let total: u64 = weights.iter().sum();
        let mut x = self.below(total.max(1));
        for (i, w) in weights.iter().enumerate() {
            if x < *w {
                return i;
            }
            x -= *w;
        }
        weights.len() - 1
    }

    pub fn shuffle<T>(&mut self, xs: &mut [T]) {
        for i in (1..xs.len()).rev() {
            let j = self.below(i as u64 + 1) as usize;
            xs.swap(i, j);
        }
    }
}
