//! Serializable description of one simulated run: this *is* the replay file.

use super::sched::Policy;
use serde::{Deserialize, Serialize};

#[derive(Clone, Debug, Serialize, Deserialize, PartialEq, Default)]
pub struct GoSpec {
    pub depth: Option<u8>,
    pub movetime: Option<u64>,
    pub wtime: Option<u64>,
    pub btime: Option<u64>,
    pub winc: Option<u64>,
    pub binc: Option<u64>,
    pub movestogo: Option<u32>,
    pub infinite: bool,
    /// that side has overstepped: its clock value is sent negative (GUIs that do not enforce the flag do
    /// this; only ever used for the side that is NOT to move)
    #[serde(default)]
    pub wtime_negative: bool,
    #[serde(default)]
    pub btime_negative: bool,
}

impl GoSpec {
    pub fn depth(d: u8) -> Self {
        GoSpec { depth: Some(d), ..Default::default() }
    }
    pub fn infinite() -> Self {
        GoSpec { infinite: true, ..Default::default() }
    }
    pub fn movetime(ms: u64) -> Self {
        GoSpec { movetime: Some(ms), ..Default::default() }
    }
    /// ends without outside help (given a clock that advances)
    pub fn self_terminating(&self) -> bool {
        self.depth.is_some() || self.movetime.is_some() || self.wtime.is_some() || self.btime.is_some()
    }
    pub fn timed(&self) -> bool {
        self.movetime.is_some() || self.wtime.is_some() || self.btime.is_some()
    }
    pub fn line(&self) -> String {
        let mut s = String::from("go");
        if let Some(v) = self.wtime {
            s += &format!(" wtime {}{v}", if self.wtime_negative { "-" } else { "" });
        }
        if let Some(v) = self.btime {
            s += &format!(" btime {}{v}", if self.btime_negative { "-" } else { "" });
        }
        if let Some(v) = self.winc {
            s += &format!(" winc {v}");
        }
        if let Some(v) = self.binc {
            s += &format!(" binc {v}");
        }
        if let Some(v) = self.movestogo {
            s += &format!(" movestogo {v}");
        }
        if let Some(v) = self.depth {
            s += &format!(" depth {v}");
        }
        if let Some(v) = self.movetime {
            s += &format!(" movetime {v}");
        }
        if self.infinite {
            s += " infinite";
        }
        s
    }
}

#[derive(Clone, Debug, Serialize, Deserialize, PartialEq)]
pub enum Intent {
    Uci,
    IsReady,
    UciNewGame,
    /// `fen == None` means startpos
    Position { fen: Option<String>, moves: Vec<String> },
    /// continue the game: current position plus the best move of the last finished search
    PlayBest,
    SetOption { name: String, value: String },
    /// a value picked from the range the engine itself advertised for spin option `name`
    SetSpin { name: String, pick: ValuePick },
    Go(GoSpec),
    Stop,
    /// GUI idles until the outstanding search has answered (skipped for an un-stopped infinite one)
    WaitBestmove,
    /// GUI idles until the running search has polled `n` times (or answered)
    WaitPolls(u64),
    /// any other command line, sent only while no bestmove is outstanding (e.g. `bench`)
    Raw(String),
    /// a command line sent at once, whether or not a search is running (only for commands that are
    /// not part of C05's quantifier, e.g. `bench` during a search)
    RawNow(String),
    Quit,
}

#[derive(Clone, Debug, Serialize, Deserialize, PartialEq)]
pub enum ValuePick {
    Min,
    Max,
    Default,
    MinPlus(i64),
    MaxMinus(i64),
    /// min + (max-min)*p/1_000_000
    Fraction(u32),
}

impl ValuePick {
    pub fn resolve(&self, min: i64, max: i64, default: i64) -> i64 {
        let v = match self {
            ValuePick::Min => min,
            ValuePick::Max => max,
            ValuePick::Default => default,
            ValuePick::MinPlus(k) => min + k,
            ValuePick::MaxMinus(k) => max - k,
            ValuePick::Fraction(p) => min + ((max - min) as i128 * (*p as i128) / 1_000_000) as i64,
        };
        v.clamp(min, max)
    }
}

#[derive(Clone, Debug, Serialize, Deserialize, PartialEq)]
pub enum ClockFaultS {
    Stall { ns: u64 },
    Jump { ns: u64 },
    Freeze { polls: u64 },
}

#[derive(Clone, Debug, Serialize, Deserialize, PartialEq)]
pub struct ClockEventS {
    pub search: usize,
    pub poll: u64,
    pub fault: ClockFaultS,
}

#[derive(Clone, Debug, Serialize, Deserialize, PartialEq)]
pub struct Knobs {
    /// None = shipped CHECK_TERMINATION_NODE_FREQUENCY
    pub poll_interval: Option<u64>,
    /// None = shipped default (256 MB)
    pub initial_hash_mb: Option<usize>,
    /// picoseconds of simulated time per searched node
    pub tau_ps: u64,
    pub policy: Policy,
    pub spurious_permille: u32,
    /// the GUI re-sends `position` before the first `go` after a `ucinewgame` (as GUIs do); false =
    /// it sends a bare `go` and assumes the start position, like a GUI talking to a fresh engine
    #[serde(default = "yes")]
    pub resend_position: bool,
    /// simulated time that passes on every clock read (0 = the clock only advances with work and faults)
    #[serde(default)]
    pub clock_read_step_ns: u64,
}

fn yes() -> bool {
    true
}

impl Default for Knobs {
    fn default() -> Self {
        Knobs { poll_interval: None, initial_hash_mb: Some(1), tau_ps: 250_000, policy: Policy::Uniform, spurious_permille: 0, resend_position: true, clock_read_step_ns: 0 }
    }
}

/// World A: one engine lifetime driven through the UCI loop.
#[derive(Clone, Debug, Serialize, Deserialize, PartialEq)]
pub struct ScenarioA {
    pub script: Vec<Intent>,
    pub knobs: Knobs,
    pub clock_events: Vec<ClockEventS>,
    pub sched_seed: u64,
    /// recorded scheduler choices (replay); None = draw from sched_seed
    pub schedule: Option<Vec<u32>>,
}

/// World B: direct calls of `search::search` on one PersistentState.
#[derive(Clone, Debug, Serialize, Deserialize, PartialEq)]
pub struct SearchStep {
    pub fen: String,
    pub moves: Vec<String>,
    pub go: GoSpec,
    pub move_overhead: u64,
    /// the stop flag reads true from this poll on
    pub stop_at_poll: Option<u64>,
    /// before this search: resize the table to this many MB
    pub resize_mb: Option<usize>,
    /// before this search: PersistentState::reset()
    pub reset: bool,
    pub clock_events: Vec<ClockEventS>,
}

#[derive(Clone, Debug, Serialize, Deserialize, PartialEq)]
pub struct ScenarioB {
    pub initial_hash_mb: usize,
    pub poll_interval: Option<u64>,
    pub tau_ps: u64,
    #[serde(default)]
    pub clock_read_step_ns: u64,
    pub steps: Vec<SearchStep>,
}

/// Transposition-table operation histories (C19).
#[derive(Clone, Debug, Serialize, Deserialize, PartialEq)]
pub enum TtOp {
    Insert { key: u64, bound: u8, eval: i16, depth: u8, mv: Option<u16> },
    Get { key: u64 },
    NewGeneration,
    /// `n` consecutive new_generation calls (long sessions)
    Generations { n: u32 },
    Reset,
    Resize { mb: usize },
    Occupancy,
}

#[derive(Clone, Debug, Serialize, Deserialize, PartialEq)]
pub struct ScenarioT {
    pub initial_mb: usize,
    pub ops: Vec<TtOp>,
}

#[derive(Clone, Debug, Serialize, Deserialize, PartialEq)]
pub enum Scenario {
    A(ScenarioA),
    B(ScenarioB),
    T(ScenarioT),
    /// C12: the same script under several environments / against a fresh engine
    Pair { base: ScenarioA, other: ScenarioA, compare_from_newgame: bool },
    /// The workload generator itself (which plays out positions with the engine's own rules code)
    /// made engine code panic while preparing run `run`: replayed by generating that run again.
    Gen { run: u64 },
}

#[derive(Clone, Debug, Serialize, Deserialize)]
pub struct Violation {
    pub property: String,
    pub class: String,
    pub message: String,
    /// distinguishing key for the known-findings file (class + what fails)
    pub signature: String,
}

#[derive(Clone, Debug, Serialize, Deserialize)]
pub struct ReplayFile {
    pub property: String,
    pub profile: String,
    pub seed: u64,
    pub run: u64,
    pub tier: String,
    pub scenario: Scenario,
    pub violation: Violation,
    pub log_hash: String,
    pub minimised: bool,
    pub note: String,
}
