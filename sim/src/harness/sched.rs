//! The simulator's own scheduler (an implementation of shuttle's public `Scheduler` trait): every
//! choice among runnable simulated threads comes from this run's PRNG stream and is recorded, so a
//! run can be replayed from the recorded choice list alone.

use super::rng::Rng;
use serde::{Deserialize, Serialize};
use shuttle::scheduler::{Schedule, Scheduler, Task, TaskId};
use std::cell::RefCell;
use std::rc::Rc;

#[derive(Clone, Debug, Serialize, Deserialize, PartialEq)]
pub enum Policy {
    /// uniform among runnable threads at every scheduling point
    Uniform,
    /// keep the running thread with probability `stay_permille`/1000, else uniform among the others
    Sticky { stay_permille: u32 },
    /// strict priorities (lower task id first or last), re-drawn at random change points; a thread
    /// that was runnable but passed over for `FAIR_BOUND` decisions is run (fair PCT variant)
    Priority { change_permille: u32 },
}

/// A runnable (not merely spuriously-wakeable) thread is never passed over more often than this.
pub const FAIR_BOUND: u32 = 32;

#[derive(Default, Debug)]
pub struct SchedRecord {
    /// one entry per decision with more than one candidate: the chosen task id
    pub choices: Vec<u32>,
    pub decisions: u64,
    pub switches: u64,
    pub spurious_wakeups: u64,
    pub max_tasks: usize,
    pub diverged: Option<String>,
    pub fairness_forced: u64,
}

pub struct SimScheduler {
    rng: Rng,
    policy: Policy,
    started: bool,
    /// spurious condvar wake-ups are a fault kind of their own; permille per eligible decision
    spurious_permille: u32,
    replay: Option<Vec<u32>>,
    replay_pos: usize,
    /// when the recorded choices run out during a replay/minimisation: keep the current thread
    prefer_current_after_replay: bool,
    passed_over: Vec<u32>,
    priorities: Vec<u64>,
    pub record: Rc<RefCell<SchedRecord>>,
}

impl SimScheduler {
    pub fn new(rng: Rng, policy: Policy, spurious_permille: u32, record: Rc<RefCell<SchedRecord>>) -> Self {
        SimScheduler {
            rng,
            policy,
            started: false,
            spurious_permille,
            replay: None,
            replay_pos: 0,
            prefer_current_after_replay: false,
            passed_over: Vec::new(),
            priorities: Vec::new(),
            record,
        }
    }

    pub fn replaying(mut self, choices: Vec<u32>, prefer_current_after: bool) -> Self {
        self.replay = Some(choices);
        self.prefer_current_after_replay = prefer_current_after;
        self
    }

    fn prio(&mut self, id: usize) -> u64 {
        while self.priorities.len() <= id {
            let p = self.rng.next_u64();
            self.priorities.push(p);
        }
        self.priorities[id]
    }
}

impl Scheduler for SimScheduler {
    fn new_execution(&mut self) -> Option<Schedule> {
        if self.started {
            None
        } else {
            self.started = true;
            Some(Schedule::new(0))
        }
    }

    fn next_task(&mut self, runnable: &[&Task], current: Option<TaskId>, _is_yielding: bool) -> Option<TaskId> {
        let mut rec = self.record.borrow_mut();
        rec.decisions += 1;
        if runnable.len() > rec.max_tasks {
            rec.max_tasks = runnable.len();
        }
        let cur: Option<usize> = current.map(usize::from);
        // candidates: truly runnable threads, plus (rarely) a condvar waiter woken spuriously
        let ids: Vec<(usize, bool)> = runnable.iter().map(|t| (usize::from(t.id()), t.runnable())).collect();
        let real: Vec<usize> = ids.iter().filter(|(_, r)| *r).map(|(i, _)| *i).collect();
        let spurious: Vec<usize> = ids.iter().filter(|(_, r)| !*r).map(|(i, _)| *i).collect();

        let chosen: usize;
        if ids.len() == 1 {
            chosen = ids[0].0;
        } else if let Some(rp) = self.replay.as_ref().filter(|rp| self.replay_pos < rp.len()) {
            let want = rp[self.replay_pos] as usize;
            self.replay_pos += 1;
            if ids.iter().any(|(i, _)| *i == want) {
                chosen = want;
            } else {
                // Never stop an execution half-way (unfinished simulated threads would have to be
                // torn down by force): finish it with "keep the running thread", flagged as diverged.
                if rec.diverged.is_none() {
                    rec.diverged = Some(format!(
                        "replay divergence at decision {}: recorded task {} not among candidates {:?}",
                        rec.decisions, want, ids
                    ));
                }
                self.replay_pos = usize::MAX / 2;
                chosen = match cur {
                    Some(c) if real.contains(&c) => c,
                    _ => *real.first().unwrap_or(&ids[0].0),
                };
            }
            rec.choices.push(chosen as u32);
        } else if self.replay.is_some() && self.prefer_current_after_replay {
            // "keep the running thread" — but still fair: a runnable thread that has been passed over
            // FAIR_BOUND times runs now (otherwise a spinning search would starve the input thread)
            let starved = real.iter().copied().find(|i| self.passed_over.get(*i).copied().unwrap_or(0) >= FAIR_BOUND);
            chosen = match (starved, cur) {
                (Some(s), _) => s,
                (None, Some(c)) if real.contains(&c) => c,
                _ => *real.first().unwrap_or(&ids[0].0),
            };
            for &i in &real {
                if self.passed_over.len() <= i {
                    self.passed_over.resize(i + 1, 0);
                }
                if i == chosen {
                    self.passed_over[i] = 0;
                } else {
                    self.passed_over[i] += 1;
                }
            }
            rec.choices.push(chosen as u32);
        } else {
            drop(rec);
            let mut pick: Option<usize> = None;
            // fairness first
            for &i in &real {
                if self.passed_over.get(i).copied().unwrap_or(0) >= FAIR_BOUND {
                    pick = Some(i);
                    self.record.borrow_mut().fairness_forced += 1;
                    // under the priority policy the starved thread also becomes the top one, so it
                    // keeps running until it blocks (forced demotion of whoever was spinning)
                    let _ = self.prio(i);
                    let top = self.priorities.iter().copied().max().unwrap_or(0);
                    self.priorities[i] = top.saturating_add(1);
                    break;
                }
            }
            if pick.is_none() && !spurious.is_empty() && self.spurious_permille > 0 {
                if self.rng.below(1000) < self.spurious_permille as u64 {
                    pick = Some(*self.rng.pick(&spurious));
                }
            }
            if pick.is_none() {
                if real.is_empty() {
                    // only spuriously-wakeable threads: shuttle treats this as a deadlock before
                    // asking us; defensive
                    pick = Some(ids[0].0);
                } else if real.len() == 1 {
                    pick = Some(real[0]);
                } else {
                    let policy = self.policy.clone();
                    pick = Some(match policy {
                        Policy::Uniform => *self.rng.pick(&real),
                        Policy::Sticky { stay_permille } => match cur {
                            Some(c) if real.contains(&c) && self.rng.below(1000) < stay_permille as u64 => c,
                            Some(c) => {
                                let others: Vec<usize> = real.iter().copied().filter(|i| *i != c).collect();
                                if others.is_empty() {
                                    c
                                } else {
                                    *self.rng.pick(&others)
                                }
                            }
                            None => *self.rng.pick(&real),
                        },
                        Policy::Priority { change_permille } => {
                            if self.rng.below(1000) < change_permille as u64 {
                                // change point: re-draw the priority of one runnable thread
                                let victim = *self.rng.pick(&real);
                                let p = self.rng.next_u64();
                                let _ = self.prio(victim);
                                self.priorities[victim] = p;
                            }
                            let mut best = real[0];
                            let mut bestp = self.prio(best);
                            for &i in &real[1..] {
                                let p = self.prio(i);
                                if p > bestp {
                                    best = i;
                                    bestp = p;
                                }
                            }
                            best
                        }
                    });
                }
            }
            chosen = pick.unwrap();
            let mut rec2 = self.record.borrow_mut();
            rec2.choices.push(chosen as u32);
            if spurious.contains(&chosen) {
                rec2.spurious_wakeups += 1;
            }
            if cur.is_some() && cur != Some(chosen) {
                rec2.switches += 1;
            }
            drop(rec2);
            // fairness bookkeeping
            for &i in &real {
                if self.passed_over.len() <= i {
                    self.passed_over.resize(i + 1, 0);
                }
                if i == chosen {
                    self.passed_over[i] = 0;
                } else {
                    self.passed_over[i] += 1;
                }
            }
            return Some(TaskId::from(chosen));
        }
        if spurious.contains(&chosen) {
            rec.spurious_wakeups += 1;
        }
        if cur.is_some() && cur != Some(chosen) {
            rec.switches += 1;
        }
        Some(TaskId::from(chosen))
    }

    fn next_u64(&mut self) -> u64 {
        self.rng.next_u64()
    }
}
