//! C19: the transposition table against a small executable reference model, operation by
//! operation, over seeded lifecycle/operation histories (insert / probe / new search / reset /
//! resize / occupancy) with keys built to collide on slots.

use super::gui::Found;
use super::rng::Rng;
use super::scenario::{ScenarioT, TtOp};
use crate::chess::game::Game;
use crate::chess::moves::Move;
use crate::chess::zobrist::ZobristHash;
use crate::engine::eval::Eval;
use crate::engine::search::transposition::{NodeBound, SearchTranspositionTable, SearchTranspositionTableData};
use crate::engine::transposition_table::calculate_number_of_entries;
use std::collections::{BTreeMap, HashMap};

#[derive(Clone, Debug, PartialEq)]
struct MEntry {
    key: u64,
    bound: u8,
    eval: i16,
    depth: u8,
    mv: Option<u16>,
    true_gen: u64,
}

pub struct TtOutcome {
    pub found: Vec<Found>,
    pub fingerprint: u64,
    pub ops: u64,
    pub probes: BTreeMap<String, u64>,
}

fn bound_of(b: u8) -> NodeBound {
    match b % 3 {
        0 => NodeBound::Exact,
        1 => NodeBound::Upper,
        _ => NodeBound::Lower,
    }
}

fn bound_code(b: &NodeBound) -> u8 {
    match b {
        NodeBound::Exact => 0,
        NodeBound::Upper => 1,
        NodeBound::Lower => 2,
    }
}

/// A pool of real moves (the table stores `Option<Move>`, whose constructor is not public).
pub fn move_pool() -> Vec<Move> {
    let mut v: Vec<Move> = Game::new().moves().iter().copied().collect();
    let kiwi = Game::from_fen("r3k2r/p1ppqpb1/bn2pnp1/3PN3/1p2P3/2N2Q1p/PPPBBPPP/R3K2R w KQkq - 0 1").unwrap();
    v.extend(kiwi.moves().iter().copied());
    v
}

pub fn slots_for(mb: usize) -> usize {
    calculate_number_of_entries::<SearchTranspositionTableData>(mb).max(1)
}

fn add(found: &mut Vec<Found>, class: &str, message: String, signature: String) {
    if !found.iter().any(|f| f.class == class) {
        found.push(Found { class: class.to_string(), message, signature });
    }
}

/// Runs the history; a panic inside the table (e.g. an arithmetic overflow in a checked build) is
/// an observed event, not the end of the worker.
pub fn run_tt(sc: &ScenarioT) -> TtOutcome {
    let _ = super::worlda::take_panic();
    match std::panic::catch_unwind(std::panic::AssertUnwindSafe(|| run_tt_inner(sc))) {
        Ok(o) => o,
        Err(_) => {
            let (msg, loc) = super::worlda::take_panic().unwrap_or_else(|| ("<unknown panic>".into(), String::new()));
            let locr = loc.rsplit_once("/src/").map(|(_, r)| format!("src/{r}")).unwrap_or_else(|| loc.clone());
            let class = if loc.starts_with("src/") { "harness-panic" } else { "panic" };
            TtOutcome {
                found: vec![Found { class: class.into(), message: format!("the table panicked at {loc}: {msg} (history of {} operations on a {} MB table)", sc.ops.len(), sc.initial_mb), signature: format!("panic {locr} {msg}") }],
                fingerprint: 0,
                ops: sc.ops.len() as u64,
                probes: BTreeMap::new(),
            }
        }
    }
}

fn run_tt_inner(sc: &ScenarioT) -> TtOutcome {
    let pool = move_pool();
    let mut found = Vec::new();
    let mut probes: BTreeMap<String, u64> = BTreeMap::new();
    let mut probe = |k: &str| *probes.entry(k.to_string()).or_insert(0) += 1;
    let mut fp: u64 = 0;
    let mut eat = |x: u64| {
        fp = (fp.rotate_left(9) ^ x).wrapping_mul(0x9E37_79B9_7F4A_7C15);
    };

    let mut tt = SearchTranspositionTable::new(sc.initial_mb);
    let mut mb = sc.initial_mb;
    let mut n = slots_for(mb);
    let mut model: HashMap<usize, MEntry> = HashMap::new();
    let mut gen: u64 = 0;
    let mut ops = 0u64;

    // compares a probe of `key` with the model
    let check_get = |tt: &SearchTranspositionTable, model: &HashMap<usize, MEntry>, n: usize, key: u64, found: &mut Vec<Found>, ctxs: &str| -> u64 {
        let slot = (key as usize) % n;
        let real = tt.get(&ZobristHash(key));
        let want = model.get(&slot).filter(|e| e.key == key);
        match (real, want) {
            (None, None) => 0,
            (Some(r), Some(w)) => {
                let wmv = w.mv.map(|i| pool[i as usize]);
                if bound_code(&r.bound) != w.bound || r.eval.0 != w.eval || r.depth != w.depth || r.best_move != wmv || r.age != (w.true_gen as u8) {
                    add(
                        found,
                        "tt-wrong-data",
                        format!("{ctxs}: probe of key {key:#x} returned (bound {:?}, eval {}, depth {}, age {}) but the latest admitted entry is (bound {}, eval {}, depth {}, age {})",
                            r.bound, r.eval.0, r.depth, r.age, w.bound, w.eval, w.depth, w.true_gen as u8),
                        "tt-wrong-data".into(),
                    );
                }
                1
            }
            (Some(r), None) => {
                add(
                    found,
                    "tt-phantom-hit",
                    format!("{ctxs}: probe of key {key:#x} (slot {slot} of {n}) hit (depth {}, eval {}) although nothing is stored under that key", r.depth, r.eval.0),
                    "tt-phantom-hit".into(),
                );
                2
            }
            (None, Some(w)) => {
                add(
                    found,
                    "tt-lost-entry",
                    format!("{ctxs}: probe of key {key:#x} (slot {slot} of {n}) missed although the policy admitted an entry (depth {}, bound {}) for it", w.depth, w.bound),
                    "tt-lost-entry".into(),
                );
                3
            }
        }
    };

    for (i, op) in sc.ops.iter().enumerate() {
        ops += 1;
        let ctxs = format!("op #{i} {op:?} (table {mb} MB, {n} slots, search #{gen})");
        match op {
            TtOp::Insert { key, bound, eval, depth, mv } => {
                let slot = (*key as usize) % n;
                let data = SearchTranspositionTableData {
                    bound: bound_of(*bound),
                    eval: Eval(*eval),
                    depth: *depth,
                    age: tt.generation,
                    best_move: mv.map(|m| pool[(m as usize) % pool.len()]),
                };
                if tt.generation != (gen as u8) {
                    add(&mut found, "tt-generation", format!("{ctxs}: table generation {} but {} searches were started (mod 256 = {})", tt.generation, gen, gen as u8), "tt-generation".into());
                }
                tt.insert(&ZobristHash(*key), data);
                let new_e = MEntry { key: *key, bound: *bound % 3, eval: *eval, depth: *depth, mv: mv.map(|m| (m as usize % pool.len()) as u16), true_gen: gen };
                let old = model.get(&slot).cloned();
                let admit = match &old {
                    None => true,
                    Some(o) => o.true_gen != gen || new_e.depth > o.depth || new_e.bound == 0 || o.bound != 0,
                };
                if old.is_some() {
                    probe(if admit { "insert_replaced_entry" } else { "insert_refused_by_policy" });
                    if old.as_ref().unwrap().key != *key {
                        probe("slot_collision_between_different_keys");
                    }
                }
                // what did the table do?  (probes have no side effects)
                let now = tt.get(&ZobristHash(*key));
                let took = match now {
                    Some(r) => bound_code(&r.bound) == new_e.bound && r.eval.0 == new_e.eval && r.depth == new_e.depth && r.age == (gen as u8),
                    None => false,
                };
                if admit && !took {
                    let o = old.clone().unwrap_or(new_e.clone());
                    let alias = old.is_some() && o.true_gen != gen && (o.true_gen as u8) == (gen as u8) && !(new_e.depth > o.depth || new_e.bound == 0 || o.bound != 0);
                    if alias {
                        // the one-byte age cannot tell search #g from search #g+256k
                        add(
                            &mut found,
                            "tt-age-alias",
                            format!("{ctxs}: an entry written {} searches earlier (same age byte {}) did not give way to a new entry (old depth {} exact, new depth {} bound {})",
                                gen - o.true_gen, gen as u8, o.depth, new_e.depth, new_e.bound),
                            "tt-age-alias stored-age==current-age(mod 256), true generations differ".into(),
                        );
                        probe("age_alias_after_256k_generations");
                        // adopt what the table did so that checking can go on
                    } else {
                        add(
                            &mut found,
                            "tt-policy-refused",
                            format!("{ctxs}: the replacement policy must admit this entry (old: {:?}) but the table kept the old one", old),
                            "tt-policy-refused".into(),
                        );
                        model.insert(slot, new_e.clone());
                    }
                } else if !admit && took {
                    add(
                        &mut found,
                        "tt-policy-overwrote",
                        format!("{ctxs}: within one search an exact entry (depth {}) was displaced by a shallower non-exact one (depth {}, bound {})", old.as_ref().unwrap().depth, new_e.depth, new_e.bound),
                        "tt-policy-overwrote".into(),
                    );
                } else if admit {
                    model.insert(slot, new_e.clone());
                }
                // the displaced key must now miss, the kept key must still hit with its data
                if let Some(o) = &old {
                    if o.key != *key {
                        eat(check_get(&tt, &model, n, o.key, &mut found, &ctxs));
                    }
                }
                eat(check_get(&tt, &model, n, *key, &mut found, &ctxs));
            }
            TtOp::Get { key } => {
                let r = check_get(&tt, &model, n, *key, &mut found, &ctxs);
                if r == 1 {
                    probe("probe_hit");
                } else {
                    probe("probe_miss");
                    let slot = (*key as usize) % n;
                    if model.contains_key(&slot) {
                        probe("probe_miss_on_occupied_slot");
                    }
                }
                eat(r);
            }
            TtOp::NewGeneration => {
                tt.new_generation();
                gen += 1;
                if gen == 256 || gen == 512 {
                    probe("generation_counter_wrapped");
                }
            }
            TtOp::Generations { n: k } => {
                for _ in 0..*k {
                    tt.new_generation();
                    gen += 1;
                    if gen % 256 == 0 {
                        probe("generation_counter_wrapped");
                    }
                }
            }
            TtOp::Reset => {
                tt.reset();
                model.clear();
                gen = 0;
                probe("reset");
            }
            TtOp::Resize { mb: new_mb } => {
                let same = *new_mb == mb;
                let before: Vec<MEntry> = model.values().cloned().collect();
                tt.resize(*new_mb);
                if same {
                    // keeping or emptying are both allowed by the statement: adopt what the table did
                    probe("resize_to_same_size");
                    let kept = before.iter().all(|e| tt.get(&ZobristHash(e.key)).is_some());
                    let emptied = before.iter().all(|e| tt.get(&ZobristHash(e.key)).is_none());
                    if !before.is_empty() && emptied && !kept {
                        model.clear();
                        gen = tt.generation as u64;
                    } else if !kept {
                        add(&mut found, "tt-resize-partial", format!("{ctxs}: resize to the same size kept some entries and dropped others"), "tt-resize-partial".into());
                    }
                } else {
                    mb = *new_mb;
                    n = slots_for(mb);
                    model.clear();
                    gen = 0;
                    probe("resize_to_other_size");
                    // every key the model knew must miss now
                    for e in &before {
                        if tt.get(&ZobristHash(e.key)).is_some() {
                            add(&mut found, "tt-survived-resize", format!("{ctxs}: key {:#x} still hits after the table was resized", e.key), "tt-survived-resize".into());
                            break;
                        }
                    }
                    if tt.generation != 0 {
                        // a resized table must behave like a new one
                        add(&mut found, "tt-generation", format!("{ctxs}: generation {} after resize", tt.generation), "tt-generation-after-resize".into());
                    }
                }
            }
            TtOp::Occupancy => {
                let real = tt.occupancy() as i64;
                let want = (model.len() as f64 / n as f64 * 1000.0).floor() as i64;
                eat(real as u64);
                if (real - want).abs() > 1 {
                    add(
                        &mut found,
                        "tt-occupancy",
                        format!("{ctxs}: fill indicator {real} permille but {} of {n} slots are occupied ({want} permille)", model.len()),
                        "tt-occupancy".into(),
                    );
                }
            }
        }
        if tt.generation != (gen as u8) && !found.iter().any(|f| f.class == "tt-generation") {
            add(&mut found, "tt-generation", format!("{ctxs}: table generation {} but search counter is {} (mod 256 = {})", tt.generation, gen, gen as u8), "tt-generation".into());
        }
    }
    eat(model.len() as u64);
    drop(probe);
    drop(eat);
    TtOutcome { found, fingerprint: fp, ops, probes }
}

// ---- generator ---------------------------------------------------------------------------------

pub fn gen_tt(rng: &mut Rng, thorough: bool, run: u64) -> ScenarioT {
    let sizes_small: [usize; 8] = [0, 1, 1, 1, 2, 3, 4, 16];
    let mut mb = *rng.pick(&sizes_small);
    if thorough && run % 5_000 == 0 {
        mb = *rng.pick(&[64usize, 256, 1024]);
    }
    let initial_mb = mb;
    let mut n = slots_for(mb);
    let len = match rng.below(10) {
        0..=5 => rng.range(10, 80),
        6..=8 => rng.range(80, 400),
        _ => rng.range(400, if thorough { 2000 } else { 900 }),
    };
    // a few hot slots; keys colliding on them
    let hot: Vec<u64> = (0..rng.range(1, 4)).map(|_| rng.next_u64() % n as u64).collect();
    let mut keys_used: Vec<u64> = Vec::new();
    let mut ops = Vec::new();
    let long_generations = rng.chance(1, 4);
    for _ in 0..len {
        let w = [38u64, 30, 9, if long_generations { 3 } else { 1 }, 3, 4, 6];
        match rng.weighted(&w) {
            0 => {
                let key = if rng.chance(3, 4) {
                    let s = *rng.pick(&hot) % n as u64;
                    s + rng.below(6) * n as u64
                } else {
                    rng.next_u64()
                };
                keys_used.push(key);
                // depth / bound mixes around the policy's edges
                let depth = *rng.pick(&[0u8, 1, 1, 2, 3, 3, 4, 5, 9, 255]);
                let eval = *rng.pick(&[0i16, 25, -25, 300, -300, 31990, -31990, 32000, -32000, i16::MAX, i16::MIN]);
                let mv = if rng.chance(1, 4) { None } else { Some(rng.below(64) as u16) };
                ops.push(TtOp::Insert { key, bound: rng.below(3) as u8, eval, depth, mv });
            }
            1 => {
                let key = if !keys_used.is_empty() && rng.chance(4, 5) {
                    let k = *rng.pick(&keys_used);
                    // sometimes a *different* key on the same slot, or the same low 32 bits
                    match rng.below(10) {
                        0 => k.wrapping_add(n as u64),
                        1 => k ^ (1u64 << 40),
                        2 => k ^ (1u64 << 63),
                        _ => k,
                    }
                } else {
                    rng.next_u64()
                };
                ops.push(TtOp::Get { key });
            }
            2 => ops.push(TtOp::NewGeneration),
            3 => ops.push(TtOp::Generations { n: *rng.pick(&[254u32, 255, 256, 257, 300, 511, 512, 600]) }),
            4 => {
                ops.push(TtOp::Reset);
                keys_used.clear();
            }
            5 => {
                let new_mb = if rng.chance(1, 5) { mb } else { *rng.pick(&sizes_small) };
                if new_mb != mb {
                    mb = new_mb;
                    n = slots_for(mb);
                    keys_used.clear();
                }
                ops.push(TtOp::Resize { mb: new_mb });
            }
            _ => ops.push(TtOp::Occupancy),
        }
    }
    ops.push(TtOp::Occupancy);
    ScenarioT { initial_mb, ops }
}
