//! World A: one engine lifetime.  The real `uci::uci(Stdin)` runs on the simulated input thread, the
//! real Go arm spawns simulated search threads, the SimScheduler decides every interleaving.

use super::gui::{Found, GoRecord, GuiSource, GuiState};
use super::rng::{hash_bytes, Rng};
use super::scenario::{ClockFaultS, ScenarioA};
use super::sched::{SchedRecord, SimScheduler};
use crate::engine::uci::{self, UciInputMode};
use crate::verif_seam::{self as seam, ClockEvent, ClockFault, Event, FaultCounters, SearchRec, Signal, Sim};
use std::cell::RefCell;
use std::collections::BTreeMap;
use std::panic::{catch_unwind, AssertUnwindSafe};
use std::rc::Rc;

thread_local! {
    pub static LAST_PANIC: RefCell<Option<(String, String)>> = const { RefCell::new(None) };
}

/// Install the harness panic hook (after shuttle installed its own, which it does only once).
pub fn init_panic_capture() {
    // run one trivial execution so that shuttle's `Once`-guarded hook is in place, then replace it
    let rec = Rc::new(RefCell::new(SchedRecord::default()));
    let sched = SimScheduler::new(Rng::new(0), super::sched::Policy::Uniform, 0, rec);
    let mut cfg = shuttle::Config::new();
    cfg.failure_persistence = shuttle::FailurePersistence::None;
    cfg.silence_warnings = true;
    shuttle::Runner::new(sched, cfg).run(|| {});
    std::panic::set_hook(Box::new(|info| {
        let msg = if info.payload().downcast_ref::<crate::verif_seam::SimKill>().is_some() {
            "SIMKILL".to_string()
        } else if let Some(s) = info.payload().downcast_ref::<&str>() {
            s.to_string()
        } else if let Some(s) = info.payload().downcast_ref::<String>() {
            s.clone()
        } else {
            "<non-string panic payload>".to_string()
        };
        let loc = info.location().map(|l| format!("{}:{}", l.file(), l.line())).unwrap_or_default();
        if std::env::var_os("VERIF_DEBUG").is_some() {
            errln!("[panic] {msg} at {loc}");
            if std::env::var_os("VERIF_DEBUG_BT").is_some() {
                errln!("{}", std::backtrace::Backtrace::force_capture());
            }
        }
        LAST_PANIC.with(|p| {
            let mut p = p.borrow_mut();
            // keep the first panic of a run: later ones are consequences (poisoned mutex, …)
            if p.is_none() {
                *p = Some((msg, loc));
            }
        });
    }));
}

pub fn take_panic() -> Option<(String, String)> {
    LAST_PANIC.with(|p| p.borrow_mut().take())
}

#[derive(Clone, Debug, Default)]
pub struct StatsA {
    pub sched_decisions: u64,
    pub sched_switches: u64,
    pub spurious_wakeups: u64,
    pub fairness_forced: u64,
    pub max_threads: usize,
    pub searches: u64,
    pub polls: u64,
    pub nodes: u64,
    pub sim_ns: u64,
    pub lines_in: u64,
    pub lines_out: u64,
    pub faults: FaultCounters,
    pub probes: BTreeMap<String, u64>,
}

pub struct OutcomeA {
    pub found: Vec<Found>,
    pub transcript: Vec<String>,
    pub stderr: Vec<String>,
    pub fingerprint: u64,
    pub schedule: Vec<u32>,
    pub schedule_hash: u64,
    pub stats: StatsA,
    pub inconclusive: Option<String>,
    pub harness_error: Option<String>,
    pub searches: Vec<SearchRec>,
    pub gos: Vec<GoRecord>,
    pub refused_setoptions: u64,
    pub main_result: Option<Result<(), String>>,
    pub events: Vec<Event>,
    pub spin_options: Vec<super::gui::SpinOption>,
}

thread_local! {
    static MAIN_RESULT: RefCell<Option<Result<(), String>>> = const { RefCell::new(None) };
}

pub const MAX_STEPS: usize = 3_000_000;

fn panic_signature(msg: &str, loc: &str) -> String {
    // location relative to the repository, message without run-specific numbers
    let loc = loc.rsplit_once("/src/").map(|(_, r)| format!("src/{r}")).unwrap_or_else(|| loc.to_string());
    format!("panic {loc} {msg}")
}

pub fn run_a(sc: &ScenarioA, keep_events: bool) -> OutcomeA {
    super::cli::heartbeat();
    let _ = take_panic();
    MAIN_RESULT.with(|m| *m.borrow_mut() = None);

    let gui = Rc::new(RefCell::new(GuiState::new(sc.script.clone())));
    gui.borrow_mut().resend_position = sc.knobs.resend_position;
    let mut sim = Sim::new();
    sim.poll_interval = sc.knobs.poll_interval;
    sim.initial_hash_mb = sc.knobs.initial_hash_mb;
    sim.tau_ps = sc.knobs.tau_ps;
    sim.read_step_ns = sc.knobs.clock_read_step_ns;
    sim.clock_events = sc
        .clock_events
        .iter()
        .map(|e| ClockEvent {
            search: e.search,
            poll: e.poll,
            fault: match e.fault {
                ClockFaultS::Stall { ns } => ClockFault::Stall { ns },
                ClockFaultS::Jump { ns } => ClockFault::Jump { ns },
                ClockFaultS::Freeze { polls } => ClockFault::Freeze { polls },
            },
        })
        .collect();
    sim.stdin = Some(Box::new(GuiSource(gui.clone())));
    sim.on_output = Some(super::gui::observer(gui.clone()));
    sim.signal = Some(Rc::new(Signal { m: shuttle::sync::Mutex::new(()), cv: shuttle::sync::Condvar::new() }));
    // a search may poll this often after `stop` was handed over before the oracle calls it a hang:
    // the fair scheduler lets the input thread run within FAIR_BOUND decisions, and `stop` needs
    // only a handful of input-thread steps
    sim.stop_liveness_bound = (super::sched::FAIR_BOUND as u64) * 40;
    sim.log_enabled = keep_events;
    // no single search of a session may run away (harness budget; exhausting it is inconclusive)
    sim.node_cap = 50_000_000;
    seam::install(sim);

    let record = Rc::new(RefCell::new(SchedRecord::default()));
    let mut sched = SimScheduler::new(
        Rng::derive(sc.sched_seed, 0, "sched"),
        sc.knobs.policy.clone(),
        sc.knobs.spurious_permille,
        record.clone(),
    );
    if let Some(ch) = &sc.schedule {
        sched = sched.replaying(ch.clone(), true);
    }
    let mut cfg = shuttle::Config::new();
    cfg.stack_size = 2 * 1024 * 1024; // what std::thread::spawn gives the real search thread
    cfg.failure_persistence = shuttle::FailurePersistence::None;
    cfg.max_steps = shuttle::MaxSteps::FailAfter(MAX_STEPS);
    cfg.silence_warnings = true;
    let runner = shuttle::Runner::new(sched, cfg);

    let result = catch_unwind(AssertUnwindSafe(|| {
        runner.run(|| {
            let r = uci::uci(UciInputMode::Stdin);
            // the process would end here: nothing that is printed later counts, and the remaining
            // simulated threads are cancelled so that the execution can be torn down
            seam::with_sim(|s| {
                s.process_exited = true;
                s.teardown = true;
            });
            MAIN_RESULT.with(|m| *m.borrow_mut() = Some(r));
        })
    }));

    let sim = seam::uninstall().expect("simulator state vanished");
    let panic = take_panic();
    let main_result = MAIN_RESULT.with(|m| m.borrow_mut().take());
    let rec = record.borrow();
    let mut gui = gui.borrow_mut();

    let mut found = gui.found.clone();
    let mut inconclusive = None;
    let mut harness_error = rec.diverged.clone();

    if result.is_err() {
        let (msg, loc) = panic.clone().unwrap_or_else(|| ("<unknown panic>".to_string(), String::new()));
        if msg == "SIMKILL" {
            // the simulator itself unwound a search thread that ignored the stop flag
            let v = sim.liveness_violation.clone().unwrap_or_else(|| "search ignored the stop flag".into());
            let class = if v.contains("still polling") || v.contains("stop flag is ignored") {
                "stop-not-honoured"
            } else if v.contains("expired limit ignored") {
                "limit-ignored"
            } else {
                "command-stuck"
            };
            found.insert(0, Found { class: class.into(), message: v, signature: class.into() });
        } else if msg.starts_with("deadlock!") {
            found.insert(
                0,
                Found {
                    class: "deadlock".into(),
                    message: format!("{msg}; last command handed to the engine: {:?}", sim.last_line_in),
                    signature: format!("deadlock after {:?}", sim.last_line_in.clone().unwrap_or_default()),
                },
            );
        } else if msg.starts_with("exceeded max_steps") {
            inconclusive = Some(format!("scheduler step budget exhausted: {msg}"));
        } else if loc.starts_with("src/") {
            // (every `position` line the GUI model sends was built and checked with the legality
            // oracle, so an "Illegal move" panic of the engine's position handler is the engine's)
            // the harness' own files have crate-relative paths; the engine's are absolute (#[path])
            harness_error = Some(format!("panic in harness code at {loc}: {msg}"));
        } else {
            found.insert(
                0,
                Found { class: "panic".into(), message: format!("engine thread panicked at {loc}: {msg}"), signature: panic_signature(&msg, &loc) },
            );
        }
    } else if harness_error.is_none() {
        // end-of-run accounting (C05)
        if let Some(v) = &sim.liveness_violation {
            let class = if v.contains("still polling") {
                "stop-not-honoured"
            } else if v.contains("expired limit ignored") {
                "limit-ignored"
            } else {
                "command-stuck"
            };
            found.push(Found { class: class.into(), message: v.clone(), signature: class.into() });
        }
        match &main_result {
            Some(Ok(())) => {}
            Some(Err(e)) => found.push(Found {
                class: "engine-exit".into(),
                message: format!("the UCI loop ended with an error on conforming input: {e}"),
                signature: format!("engine-exit {e}"),
            }),
            None => {}
        }
        if gui.readyok_seen != gui.isready_sent {
            found.push(Found {
                class: "missing-readyok".into(),
                message: format!("{} isready handed over, {} readyok printed", gui.isready_sent, gui.readyok_seen),
                signature: "missing-readyok".into(),
            });
        }
        // every go must have been answered unless quit/EOF arrived while it was outstanding
        for g in gui.gos.iter() {
            let last = g.ordinal + 1 == gui.gos.len();
            if g.bestmove.is_none() && !(last && (gui.quit_sent || gui.eof_sent)) {
                found.push(Found {
                    class: "missing-bestmove".into(),
                    message: format!("go #{} (`{}` in {}) was never answered", g.ordinal, g.spec.line(), g.fen),
                    signature: "missing-bestmove".into(),
                });
                break;
            }
        }
        if sim.node_cap_hit {
            inconclusive = Some("per-search node budget exhausted".into());
        }
    }

    let mut stats = StatsA::default();
    stats.sched_decisions = rec.decisions;
    stats.sched_switches = rec.switches;
    stats.spurious_wakeups = rec.spurious_wakeups;
    stats.fairness_forced = rec.fairness_forced;
    stats.max_threads = rec.max_tasks;
    stats.searches = sim.searches.len() as u64;
    stats.polls = sim.searches.iter().map(|s| s.polls).sum();
    stats.nodes = sim.searches.iter().map(|s| s.max_nodes).sum();
    stats.sim_ns = sim.now_ns - 1_000_000_000 - sim.faults.skipped_ns;
    stats.faults = sim.faults.clone();
    stats.lines_out = (gui.transcript.len() + gui.stderr_lines.len()) as u64;
    for (k, v) in gui.probes.iter() {
        stats.probes.insert((*k).to_string(), *v);
    }
    // reach probes derived from the search records
    for s in &sim.searches {
        if let Some((p, _)) = s.first_stop {
            *stats.probes.entry("search_observed_stop".into()).or_insert(0) += 1;
            if p <= 1 {
                *stats.probes.entry("stop_observed_at_first_poll".into()).or_insert(0) += 1;
            }
        }
    }
    let schedule = rec.choices.clone();
    let mut sh = 0u64;
    for c in &schedule {
        sh = hash_bytes(sh.rotate_left(7), &c.to_le_bytes());
    }

    OutcomeA {
        found,
        transcript: std::mem::take(&mut gui.transcript),
        stderr: std::mem::take(&mut gui.stderr_lines),
        fingerprint: sim.fingerprint,
        schedule,
        schedule_hash: sh,
        stats,
        inconclusive,
        harness_error,
        searches: sim.searches.clone(),
        gos: std::mem::take(&mut gui.gos),
        refused_setoptions: gui.refused_setoptions,
        main_result,
        events: if keep_events { sim.log } else { Vec::new() },
        spin_options: gui.spin_options.clone(),
    }
}

