//! World B: direct calls of the real `search::search` on one `PersistentState` that lives through
//! a scenario, on a single simulated thread (inside a one-task shuttle execution because the stop
//! flag is a shuttle atomic).  Used where the harness must see what the UCI text does not show and
//! for systematic crash-point (poll index) enumeration.

use super::gui::Found;
use super::oracle::{self, InfoLine, LineMonitor, Score};
use super::rng::Rng;
use super::scenario::{ClockFaultS, GoSpec, ScenarioB, SearchStep};
use super::sched::{Policy, SchedRecord, SimScheduler};
use super::worlda::take_panic;
use crate::chess::game::Game;
use crate::chess::moves::Move;
use crate::engine::options::EngineOptions;
use crate::engine::search::time_control::TimeStrategy;
use crate::engine::search::{self, Clocks, PersistentState, Reporter, SearchInfo, SearchRestrictions, SearchScore, TimeControl};
use crate::verif_seam::{self as seam, ClockEvent, ClockFault, FaultCounters, SearchRec, Sim};
use std::cell::RefCell;
use std::collections::BTreeMap;
use std::panic::{catch_unwind, AssertUnwindSafe};
use std::rc::Rc;
use std::time::Duration;

#[derive(Clone, Debug)]
pub struct StepRecord {
    pub index: usize,
    pub fen: String,
    pub go: String,
    pub best: String,
    pub legal: bool,
    pub infos: Vec<InfoLine>,
    pub rec: SearchRec,
    pub returned_ns: u64,
    pub hashfull_after: usize,
    pub transcript: Vec<String>,
}

pub struct MonReporter {
    pub monitor: LineMonitor,
    pub infos: Vec<InfoLine>,
    pub found: Vec<(String, String)>,
    pub transcript: Vec<String>,
    pub keep: usize,
}

impl Reporter for MonReporter {
    fn generic_report(&self, _s: &str) {}

    fn report_search_progress(&mut self, game: &Game, p: SearchInfo) {
        // the position handed to the reporter is the one being searched (reporters replay the line on it)
        if game.zobrist != self.monitor.root.zobrist || game.history.len() != self.monitor.root.history.len() {
            self.found.push((
                "report-wrong-position".to_string(),
                format!("a line was reported together with the position {} instead of the searched position {}", game.to_fen(), self.monitor.root.to_fen()),
            ));
        }
        let score = match p.score {
            SearchScore::Centipawns(c) => Score::Cp(c as i32),
            SearchScore::Mate(m) => Score::Mate(m as i32),
        };
        let pv: Vec<String> = p.pv.clone().into_iter().map(oracle::move_str).collect();
        let info = InfoLine {
            depth: p.depth as u32,
            seldepth: Some(p.seldepth as u32),
            score,
            nodes: Some(p.stats.nodes),
            hashfull: Some(p.hashfull as u64),
            pv,
        };
        let vs = self.monitor.check(&info);
        self.found.extend(vs);
        self.transcript.push(format!(
            "info depth {} seldepth {} score {:?} nodes {} hashfull {} pv {}",
            info.depth,
            p.seldepth,
            info.score,
            p.stats.nodes,
            p.hashfull,
            info.pv.join(" ")
        ));
        if self.infos.len() < self.keep {
            self.infos.push(info);
        }
    }

    fn best_move(&self, _game: &Game, _mv: Move) {}
}

pub fn time_control_of(go: &GoSpec) -> TimeControl {
    // the precedence of the Go arm in uci/mod.rs
    let mut tc = TimeControl::Infinite;
    if let Some(mt) = go.movetime {
        tc = TimeControl::ExactTime(Duration::from_millis(mt));
    }
    if go.wtime.is_some() || go.btime.is_some() {
        tc = TimeControl::Clocks(Clocks {
            white_clock: go.wtime.map(Duration::from_millis),
            black_clock: go.btime.map(Duration::from_millis),
            white_increment: go.winc.map(Duration::from_millis),
            black_increment: go.binc.map(Duration::from_millis),
            moves_to_go: go.movestogo,
        });
    }
    tc
}

fn game_image(g: &Game) -> String {
    // everything a caller could observe about the position object
    format!("{:?}", g)
}

#[derive(Default, Clone, Debug)]
pub struct StatsB {
    pub searches: u64,
    pub polls: u64,
    pub nodes: u64,
    pub sim_ns: u64,
    pub infos: u64,
    pub mates_checked: u64,
    pub pv_moves_checked: u64,
    pub faults: FaultCounters,
    pub probes: BTreeMap<String, u64>,
}

pub struct OutcomeB {
    pub found: Vec<Found>,
    pub steps: Vec<StepRecord>,
    pub fingerprint: u64,
    pub stats: StatsB,
    pub inconclusive: Option<String>,
    pub harness_error: Option<String>,
    /// index of the step that was running when the run ended abnormally
    pub failed_step: Option<usize>,
}

thread_local! {
    static B_RESULT: RefCell<Option<(Vec<Found>, Vec<StepRecord>, StatsB, Option<usize>)>> = const { RefCell::new(None) };
    static B_PROGRESS: RefCell<usize> = const { RefCell::new(0) };
}

pub struct BOptions {
    /// per-search budget of should_stop calls (≈ nodes); exceeding it is *inconclusive*
    pub node_cap: u64,
    pub keep_infos: usize,
}

impl Default for BOptions {
    fn default() -> Self {
        BOptions { node_cap: 60_000_000, keep_infos: 64 }
    }
}

fn probe(p: &mut BTreeMap<String, u64>, k: &str) {
    *p.entry(k.to_string()).or_insert(0) += 1;
}

fn add_found(found: &mut Vec<Found>, class: &str, message: String, signature: String) {
    if !found.iter().any(|f| f.class == class) {
        found.push(Found { class: class.to_string(), message, signature });
    }
}

/// The body that runs on the simulated thread.
fn session(sc: &ScenarioB, opts_keep: usize) -> (Vec<Found>, Vec<StepRecord>, StatsB, Option<usize>) {
    let mut found: Vec<Found> = Vec::new();
    let mut steps: Vec<StepRecord> = Vec::new();
    let mut stats = StatsB::default();
    let mut hash_mb = sc.initial_hash_mb;
    let mut state = PersistentState::new(hash_mb);

    for (i, step) in sc.steps.iter().enumerate() {
        B_PROGRESS.with(|p| *p.borrow_mut() = i);
        let Ok(game) = oracle::build_position(Some(&step.fen), &step.moves) else {
            probe(&mut stats.probes, "skipped_unbuildable_position");
            continue;
        };
        if game.moves().is_empty() {
            probe(&mut stats.probes, "skipped_terminal_position");
            continue;
        }
        if step.reset {
            state.reset();
            probe(&mut stats.probes, "reset_between_searches");
            if state.tt.occupancy() != 0 {
                add_found(&mut found, "tt-not-empty-after-reset", format!("hashfull {} right after reset()", state.tt.occupancy()), "tt-not-empty-after-reset".into());
            }
        }
        if let Some(mb) = step.resize_mb {
            let changed = mb != hash_mb;
            state.tt.resize(mb);
            hash_mb = mb;
            probe(&mut stats.probes, "resize_between_searches");
            if changed && state.tt.occupancy() != 0 && mb > 0 {
                add_found(&mut found, "tt-not-empty-after-resize", format!("hashfull {} right after resize({mb})", state.tt.occupancy()), "tt-not-empty-after-resize".into());
            }
        }
        let options = EngineOptions { hash_size: hash_mb, threads: 1, move_overhead: step.move_overhead as usize, syzygy_path: None };
        let tc = time_control_of(&step.go);
        let before = game_image(&game);
        let legal = oracle::legal_move_strs_checked(&game, Some(&step.fen), &step.moves);
        let white = game.player == crate::chess::player::Player::White;
        let limit_ms = if step.go.wtime.is_some() || step.go.btime.is_some() {
            Some((if white { step.go.wtime } else { step.go.btime }.unwrap_or(0), true))
        } else {
            step.go.movetime.map(|m| (m, false))
        };
        let search_id = seam::with_sim(|s| {
            s.next_stop_at_poll = step.stop_at_poll;
            s.next_caller_limit_ns = limit_ms.map(|(ms, c)| (ms.saturating_mul(1_000_000), c));
            let id = s.searches.len();
            for e in &step.clock_events {
                s.clock_events.push(ClockEvent {
                    search: id,
                    poll: e.poll,
                    fault: match e.fault {
                        ClockFaultS::Stall { ns } => ClockFault::Stall { ns },
                        ClockFaultS::Jump { ns } => ClockFault::Jump { ns },
                        ClockFaultS::Freeze { polls } => ClockFault::Freeze { polls },
                    },
                });
            }
            id
        })
        .unwrap();
        let (mut ts, _control) = TimeStrategy::new(&game, &tc, &options);
        let mut reporter = MonReporter {
            monitor: LineMonitor::new(game.clone(), step.go.depth).with_root_legal(legal.clone()),
            infos: Vec::new(),
            found: Vec::new(),
            transcript: Vec::new(),
            keep: opts_keep,
        };
        let restrictions = SearchRestrictions { depth: step.go.depth };
        let generation_before = state.tt.generation;
        let best = search::search(&game, &mut state, &mut ts, &restrictions, &options, &mut reporter);
        let best_s = oracle::move_str(best);
        // the table's search counter counts searches: one search advances it once (if at all)
        let advanced = state.tt.generation.wrapping_sub(generation_before);
        if advanced > 1 {
            add_found(
                &mut found,
                "tt-generation-per-search",
                format!("search #{i} (`{}` in {}) advanced the table's search counter {advanced} times: entries it stored itself count as older within the same search", step.go.line(), game.to_fen()),
                "tt-generation-per-search".into(),
            );
        }
        let limit_ignored = seam::with_sim(|s| s.liveness_violation.take()).flatten();
        if let Some(v) = limit_ignored {
            add_found(&mut found, "limit-ignored", format!("search #{i} (`{}` in {}): {v}", step.go.line(), game.to_fen()), "limit-ignored".into());
        }
        let (rec, now, cap_hit) = seam::with_sim(|s| {
            let now = s.now_ns;
            let r = &mut s.searches[search_id];
            r.finished = true;
            r.finished_ns = Some(now);
            // the cap only ends this search; the next one starts with a clean slate
            let hit = s.node_cap_hit;
            s.teardown = false;
            (s.searches[search_id].clone(), now, hit)
        })
        .unwrap();
        if cap_hit {
            // budget exhausted: the rest of the session would run on tables of a truncated search;
            // stop here and report inconclusive
            stats.searches += 1;
            return (found, steps, stats, Some(i));
        }
        seam::with_sim(|s| s.note(format!("{} | {} -> {} ({} nodes, {} polls)", game.to_fen(), step.go.line(), best_s, rec.max_nodes, rec.polls)));
        let is_legal = legal.contains(&best_s);
        if !is_legal {
            add_found(
                &mut found,
                "illegal-bestmove",
                format!("search #{i} returned `{best_s}`, not a legal move in {} (`{}`)", step.fen_after(&game), step.go.line()),
                format!("illegal-bestmove {}", game.to_fen()),
            );
        }
        let after = game_image(&game);
        if before != after {
            add_found(&mut found, "game-mutated", format!("search #{i} changed the position object it was given ({})", game.to_fen()), "game-mutated".into());
        }
        for (class, msg) in reporter.found.drain(..) {
            let sig = format!("{class} {}", game.to_fen());
            add_found(&mut found, &class, format!("search #{i}: {msg}"), sig);
        }
        // positions examined under *another* time strategy created while this search was running
        // (e.g. a fallback search started after the stop was observed) count as well
        let extra_calls: u64 = seam::with_sim(|s| s.searches.iter().skip(search_id + 1).map(|r| r.calls).sum()).unwrap_or(0);
        if extra_calls > 0 {
            probe(&mut stats.probes, "extra_time_strategy_created_inside_a_search");
        }
        let stopped = rec.first_stop.is_some() || rec.forced_at.is_some();
        let after_answer = (rec.first_stop.is_some() && (rec.calls_after_stop > 0 || rec.nodes_after_stop > 0)) || (stopped && extra_calls > 0);
        let after_flag = rec.forced_at.is_some() && rec.calls_after_forced > 0;
        if after_answer || after_flag {
            let at = rec.first_stop.map(|p| p.0).or(rec.forced_at.map(|p| p.0)).unwrap_or(0);
            add_found(
                &mut found,
                "continued-after-stop",
                format!(
                    "search #{i} went on examining positions ({} further nodes, {} further limit checks) after poll #{at} had observed the stop request / expired limit ({}, `{}`)",
                    rec.nodes_after_stop,
                    rec.calls_after_stop.max(rec.calls_after_forced).max(extra_calls),
                    game.to_fen(),
                    step.go.line()
                ),
                "continued-after-stop".into(),
            );
        }
        // reach probes
        if let Some((p, _)) = rec.first_stop {
            probe(&mut stats.probes, "search_observed_stop");
            if reporter.monitor.infos == 0 {
                probe(&mut stats.probes, "stopped_before_first_iteration_completed");
            }
            let _ = p;
        }
        if reporter.monitor.infos == 0 {
            probe(&mut stats.probes, "bestmove_without_any_info_line");
        }
        stats.searches += 1;
        stats.polls += rec.polls;
        stats.nodes += rec.max_nodes;
        stats.infos += reporter.monitor.infos as u64;
        stats.mates_checked += reporter.monitor.mates_checked as u64;
        stats.pv_moves_checked += reporter.monitor.pv_moves_checked;
        steps.push(StepRecord {
            index: i,
            fen: game.to_fen(),
            go: step.go.line(),
            best: best_s,
            legal: is_legal,
            infos: reporter.infos,
            rec,
            returned_ns: now,
            hashfull_after: state.tt.occupancy() as usize,
            transcript: reporter.transcript,
        });
    }
    (found, steps, stats, None)
}

impl SearchStep {
    fn fen_after(&self, g: &Game) -> String {
        g.to_fen()
    }
}

pub fn run_b(sc: &ScenarioB, opts: &BOptions) -> OutcomeB {
    super::cli::heartbeat();
    let _ = take_panic();
    B_RESULT.with(|r| *r.borrow_mut() = None);
    B_PROGRESS.with(|p| *p.borrow_mut() = 0);
    let mut sim = Sim::new();
    sim.poll_interval = sc.poll_interval;
    sim.tau_ps = sc.tau_ps;
    sim.read_step_ns = sc.clock_read_step_ns;
    sim.node_cap = opts.node_cap;
    seam::install(sim);

    let record = Rc::new(RefCell::new(SchedRecord::default()));
    let sched = SimScheduler::new(Rng::new(0), Policy::Uniform, 0, record);
    let mut cfg = shuttle::Config::new();
    cfg.stack_size = 2 * 1024 * 1024;
    cfg.failure_persistence = shuttle::FailurePersistence::None;
    cfg.max_steps = shuttle::MaxSteps::None;
    cfg.silence_warnings = true;
    let runner = shuttle::Runner::new(sched, cfg);
    let sc2 = sc.clone();
    let keep = opts.keep_infos;
    let result = catch_unwind(AssertUnwindSafe(|| {
        runner.run(move || {
            let r = session(&sc2, keep);
            B_RESULT.with(|c| *c.borrow_mut() = Some(r));
        })
    }));
    let sim = seam::uninstall().expect("simulator state vanished");
    let panic = take_panic();
    let progress = B_PROGRESS.with(|p| *p.borrow());

    let mut out = OutcomeB {
        found: Vec::new(),
        steps: Vec::new(),
        fingerprint: sim.fingerprint,
        stats: StatsB::default(),
        inconclusive: None,
        harness_error: None,
        failed_step: None,
    };
    match (result, B_RESULT.with(|r| r.borrow_mut().take())) {
        (Ok(_), Some((found, steps, stats, capped))) => {
            out.found = found;
            out.steps = steps;
            out.stats = stats;
            if let Some(i) = capped {
                out.inconclusive = Some(format!("search #{i} exhausted the per-search node budget"));
                out.failed_step = Some(i);
            }
        }
        (Err(_), _) | (Ok(_), None) => {
            let (msg, loc) = panic.unwrap_or_else(|| ("<unknown panic>".to_string(), String::new()));
            out.failed_step = Some(progress);
            if msg == "SIMKILL" {
                let step = sc.steps.get(progress);
                let why = sim.liveness_violation.clone().unwrap_or_default();
                let class = if why.contains("expired limit ignored") { "limit-ignored" } else { "continued-after-stop" };
                out.found.push(Found {
                    class: class.into(),
                    message: format!(
                        "search #{progress} had to be unwound by the simulator: {why} ({})",
                        step.map(|s| format!("`{}` in {}, stop injected at poll {:?}", s.go.line(), s.fen, s.stop_at_poll)).unwrap_or_default()
                    ),
                    signature: class.into(),
                });
                if sim.node_cap_hit {
                    out.inconclusive = Some(format!("search #{progress} exhausted the per-search node budget"));
                }
            } else if loc.starts_with("src/") {
                out.harness_error = Some(format!("panic in harness code at {loc}: {msg}"));
            } else {
                let locr = loc.rsplit_once("/src/").map(|(_, r)| format!("src/{r}")).unwrap_or_else(|| loc.clone());
                let step = sc.steps.get(progress);
                out.found.push(Found {
                    class: "panic".into(),
                    message: format!(
                        "search #{progress} panicked at {loc}: {msg} ({})",
                        step.map(|s| format!("`{}` in {} moves {:?}", s.go.line(), s.fen, s.moves)).unwrap_or_default()
                    ),
                    signature: format!("panic {locr} {msg}"),
                });
            }
        }
    }
    out.stats.sim_ns = sim.now_ns - 1_000_000_000 - sim.faults.skipped_ns;
    out.stats.faults = sim.faults.clone();
    out
}
