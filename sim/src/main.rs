//! Deterministic simulator for Tcheran.  The engine sources are *not* copied: the crate root below
//! is generated at build time from `$VERIF_REPO/src/main.rs` and re-points `mod chess; mod engine;`
//! at the repository, compiled with `--cfg jgilchrist_tcheran_verif` so that the add-only seams in
//! `/repo` call into `crate::verif_seam`.
#![allow(warnings)]

// --- stdout / stderr seam -----------------------------------------------------------------------
// Textual macro scope beats the std prelude: every `println!` / `eprintln!` / `print!` in the engine
// modules declared *below* these definitions lands in the simulator's ordered output log.
macro_rules! println {
    () => { $crate::verif_seam::out_line(0, ::std::string::String::new()) };
    ($($arg:tt)*) => { $crate::verif_seam::out_line(0, ::std::format!($($arg)*)) };
}
macro_rules! eprintln {
    () => { $crate::verif_seam::out_line(1, ::std::string::String::new()) };
    ($($arg:tt)*) => { $crate::verif_seam::out_line(1, ::std::format!($($arg)*)) };
}
macro_rules! print {
    ($($arg:tt)*) => { $crate::verif_seam::out_partial(::std::format!($($arg)*)) };
}
/// The harness' own way to talk to the real stdout.
macro_rules! outln {
    ($($arg:tt)*) => {{ use ::std::io::Write as _; let mut o = ::std::io::stdout().lock(); let _ = ::std::writeln!(o, $($arg)*); let _ = o.flush(); }};
}
macro_rules! errln {
    ($($arg:tt)*) => {{ use ::std::io::Write as _; let _ = ::std::writeln!(::std::io::stderr(), $($arg)*); }};
}

// --- the engine ---------------------------------------------------------------------------------
include!(concat!(env!("OUT_DIR"), "/engine_root.rs"));

// --- the simulator ------------------------------------------------------------------------------
pub mod verif_seam;
mod harness;

fn main() -> std::process::ExitCode {
    harness::cli::main()
}
