//! The seam layer: everything the `#[cfg(jgilchrist_tcheran_verif)]` hooks in /repo call.
//!
//! With no simulator installed every function is the identity / `None` / `false`.
//! State lives in one OS-thread-local (`SIM`): all simulated threads of one shuttle execution are
//! coroutines on the same OS thread, so they all see it, in a deterministic order.
//! Nothing in here draws from a PRNG or reads a real clock.

use std::cell::RefCell;
use std::collections::VecDeque;
use std::rc::Rc;
use std::time::Duration;

use crate::chess::player::Player;
use crate::engine::options::EngineOptions;
use crate::engine::search::TimeControl;

// ---- H1: sync primitives -----------------------------------------------------------------------
pub mod sync {
    pub use shuttle::sync::{Arc, Condvar, Mutex};
    pub mod atomic {
        pub use shuttle::sync::atomic::{AtomicBool, Ordering};
    }
}

// ---- H2: `std::thread::spawn` -------------------------------------------------------------------
pub mod std_shim {
    pub use ::std::*;
    pub mod thread {
        pub use shuttle::thread::*;
    }
    /// Standard output is one locked resource shared by both threads: code in the scope of the shim
    /// that takes `std::io::stdout().lock()` excludes every other writer for as long as it holds it.
    pub mod io {
        pub use ::std::io::*;
        pub fn stdout() -> super::super::SimStdout {
            super::super::SimStdout
        }
    }
}

pub struct SimStdout;
pub struct SimStdoutLock {
    _not_send: std::marker::PhantomData<*const ()>,
}

fn me() -> Option<shuttle::thread::ThreadId> {
    let threaded = with_sim(|s| s.stdin.is_some() && !s.process_exited).unwrap_or(false);
    if threaded {
        Some(shuttle::thread::current().id())
    } else {
        None
    }
}

/// Block (as a loop of scheduling points) while another thread holds the stdout lock.
fn wait_for_stdout() {
    let Some(me) = me() else { return };
    loop {
        let free = with_sim(|s| s.stdout_owner.is_none() || s.stdout_owner == Some(me) || s.teardown).unwrap_or(true);
        if free {
            return;
        }
        with_sim(|s| s.stdout_lock_waits += 1);
        shuttle::thread::yield_now();
    }
}

impl SimStdout {
    pub fn lock(&self) -> SimStdoutLock {
        wait_for_stdout();
        if let Some(me) = me() {
            with_sim(|s| {
                s.stdout_owner = Some(me);
                s.stdout_depth += 1;
            });
        }
        SimStdoutLock { _not_send: std::marker::PhantomData }
    }
}

impl Drop for SimStdoutLock {
    fn drop(&mut self) {
        with_sim(|s| {
            if s.stdout_depth > 0 {
                s.stdout_depth -= 1;
                if s.stdout_depth == 0 {
                    s.stdout_owner = None;
                }
            }
        });
    }
}

impl std::io::Write for SimStdout {
    fn write(&mut self, buf: &[u8]) -> std::io::Result<usize> {
        out_partial(String::from_utf8_lossy(buf).into_owned());
        Ok(buf.len())
    }
    fn flush(&mut self) -> std::io::Result<()> {
        Ok(())
    }
}

impl std::io::Write for SimStdoutLock {
    fn write(&mut self, buf: &[u8]) -> std::io::Result<usize> {
        out_partial(String::from_utf8_lossy(buf).into_owned());
        Ok(buf.len())
    }
    fn flush(&mut self) -> std::io::Result<()> {
        Ok(())
    }
}

/// Payload of the panic with which the simulator unwinds a search thread that keeps running although
/// every poll has been answering "stop" for a long time (a search that ignores the stop flag cannot be
/// ended in any other way).  Recognised by the runners; never escapes the simulator.
pub struct SimKill;

/// Identity of one `TimeStrategy` (= one `go`), handed out by `limits()`.
#[derive(Clone, Copy, Debug)]
pub struct Epoch {
    pub id: usize,
}
const NO_EPOCH: usize = usize::MAX;

// ---- simulator state ---------------------------------------------------------------------------

#[derive(Clone, Debug, PartialEq)]
pub enum TcKind {
    Infinite,
    ExactTime,
    Clocks,
}

#[derive(Clone, Debug)]
pub struct LimitsRec {
    pub kind: TcKind,
    pub soft_ns: u64,
    pub hard_ns: u64,
    pub white_to_move: bool,
    pub overhead_ns: u64,
    /// remaining time / increment / movestogo of the side to move as passed in (Clocks only)
    pub remaining_ns: Option<u64>,
    pub increment_ns: Option<u64>,
    pub moves_to_go: Option<u32>,
    pub movetime_ns: Option<u64>,
}

#[derive(Clone, Debug)]
pub struct SearchRec {
    pub id: usize,
    pub epoch_ns: u64,
    pub limits: LimitsRec,
    /// number of times the stop flag was consulted (H7)
    pub polls: u64,
    /// number of `should_stop` calls (H6)
    pub calls: u64,
    pub last_nodes: u64,
    /// inject: the flag reads true from this poll (1-based) on
    pub stop_at_poll: Option<u64>,
    /// first `should_stop`/`should_start_new_search` that answered "stop": (poll index, nodes)
    pub first_stop: Option<(u64, u64)>,
    /// should_stop calls / new nodes seen after the first "stop" answer
    pub calls_after_stop: u64,
    pub nodes_after_stop: u64,
    /// first poll at which an injected stop made the flag read true: (poll index, nodes)
    pub forced_at: Option<(u64, u64)>,
    /// should_stop calls after that poll (a search that ignores the flag keeps calling)
    pub calls_after_forced: u64,
    pub max_nodes: u64,
    /// poll index at which the GUI's `stop` line was handed to the engine
    pub stop_handed_at_poll: Option<u64>,
    /// the time limit the caller put on this search (movetime, or the mover's remaining clock), as
    /// an absolute simulated instant: a poll that sees the clock past it must be the last one
    pub caller_deadline_ns: Option<u64>,
    pub polls_past_deadline: u64,
    /// should_stop calls (= nodes) since the stop flag was last consulted
    pub calls_since_poll: u64,
    pub finished: bool,
    /// clock value when `bestmove` was logged / the search returned
    pub finished_ns: Option<u64>,
    /// max simulated time between two consecutive polls (for C14's environment assumption)
    pub max_poll_gap_ns: u64,
    pub last_poll_ns: u64,
}

#[derive(Clone, Debug)]
pub enum ClockFault {
    /// the search thread loses the CPU for `ns`
    Stall { ns: u64 },
    /// the monotonic clock jumps forward by `ns`
    Jump { ns: u64 },
    /// the clock does not advance for the next `polls` polls
    Freeze { polls: u64 },
}

#[derive(Clone, Debug)]
pub struct ClockEvent {
    /// ordinal of the search (in order of `go`s) and poll index at which it fires
    pub search: usize,
    pub poll: u64,
    pub fault: ClockFault,
}

#[derive(Clone, Debug)]
pub enum Event {
    /// a line handed to the engine's input thread
    In(String),
    /// stdin reported EOF
    Eof,
    /// a line printed by the engine (0 = stdout, 1 = stderr)
    Out(u8, String),
    /// a poll of the stop flag: (search id, poll index, nodes)
    Poll(usize, u64, u64),
    /// clock fault fired
    Clock(usize, u64, String),
    /// a new TimeStrategy was created
    Go(usize),
    /// should_stop answered true (search id, poll index, nodes, by_flag)
    StopSeen(usize, u64, u64),
    Note(String),
}

#[derive(Default, Clone, Debug)]
pub struct FaultCounters {
    pub stalls: u64,
    pub jumps: u64,
    pub freezes: u64,
    pub forced_stops: u64,
    pub teardown_stops: u64,
    pub stop_lines: u64,
    pub eof: u64,
    /// simulated time that was skipped by injected stalls / jumps (not searched through)
    pub skipped_ns: u64,
}

pub struct Sim {
    // clock
    pub now_ns: u64,
    /// picoseconds of simulated time per node
    pub tau_ps: u64,
    pub frozen_polls_left: u64,
    /// the clock advances by this much on every read (a thread can lose the CPU between two reads)
    pub read_step_ns: u64,
    pub clock_reads: u64,
    /// simulated time charged for bulk table work (H9)
    pub bulk_work_ns: u64,
    pub clock_events: Vec<ClockEvent>,
    // knobs
    pub poll_interval: Option<u64>,
    pub initial_hash_mb: Option<usize>,
    pub initial_move_overhead: Option<usize>,
    // searches, by Epoch id
    pub searches: Vec<SearchRec>,
    /// stop injection for the *next* search created (World B) / all searches
    pub next_stop_at_poll: Option<u64>,
    /// time limit (ns from creation) the caller puts on the next search created
    pub next_caller_limit_ns: Option<(u64, bool)>,
    /// expire: make every search see "stop" (tear-down after the input thread has returned)
    pub teardown: bool,
    pub process_exited: bool,
    // log
    pub log: Vec<Event>,
    /// keep the events themselves (replay / debugging); the fingerprint is always maintained
    pub log_enabled: bool,
    pub fingerprint: u64,
    pub events_logged: u64,
    pub last_line_in: Option<String>,
    pub partial_line: String,
    pub stdout_owner: Option<shuttle::thread::ThreadId>,
    pub stdout_depth: u32,
    pub stdout_lock_waits: u64,
    // stdin
    pub stdin: Option<Box<dyn LineSource>>,
    pub gui_waiting: bool,
    /// what the blocked GUI model is waiting for
    pub gui_wait_for: WaitFor,
    pub signal: Option<Rc<Signal>>,
    // re-entrancy marker for should_stop
    in_should_stop: bool,
    pub faults: FaultCounters,
    /// bound for the "stop honoured" liveness oracle, in polls after the stop line was handed over
    pub stop_liveness_bound: u64,
    pub liveness_violation: Option<String>,
    /// polls answered "stop" because of tear-down / budget exhaustion since that state began
    pub polls_since_teardown: u64,
    /// polls of all searches so far (the simulator's measure of search-thread progress)
    pub global_polls: u64,
    /// the input thread took this line at this global poll count and has not come back for the next
    pub input_busy: Option<(u64, String)>,
    /// simulated thread id of the input thread (the one that reads stdin)
    pub input_thread: Option<usize>,
    /// hard cap on should_stop calls per search (harness budget; exceeding it => inconclusive)
    pub node_cap: u64,
    pub node_cap_hit: bool,
    /// a search thread was unwound by the simulator (SimKill)
    pub killed: bool,
    /// output observers (GUI model): called with every complete line
    pub on_output: Option<Box<dyn FnMut(&mut SimView<'_>, u8, &str)>>,
}

/// What output observers may touch.
pub struct SimView<'a> {
    pub now_ns: u64,
    pub searches: &'a mut Vec<SearchRec>,
    pub process_exited: bool,
}

pub struct Signal {
    pub m: shuttle::sync::Mutex<()>,
    pub cv: shuttle::sync::Condvar,
}

/// What a blocked GUI model is woken by.
#[derive(Clone, Copy, Debug, Default)]
pub struct WaitFor {
    /// any `bestmove` line
    pub bestmove: bool,
    /// search `.0` reaching poll `.1`
    pub polls: Option<(usize, u64)>,
}

/// What the simulated stdin does when the input thread asks for the next line.
pub enum Next {
    Line(String),
    Eof,
    /// block until woken (then `next` is asked again)
    Wait(WaitFor),
}

pub trait LineSource {
    fn next(&mut self, sim: &mut SimCore<'_>) -> Next;
}

/// The part of `Sim` a line source may look at while deciding.
pub struct SimCore<'a> {
    /// time limit of the `go` being handed over (consumed when the engine creates the search)
    pub next_caller_limit_ns: &'a mut Option<(u64, bool)>,
    pub now_ns: u64,
    pub searches: &'a mut Vec<SearchRec>,
    pub faults: &'a mut FaultCounters,
}

impl Sim {
    pub fn new() -> Self {
        Sim {
            now_ns: 1_000_000_000, // the simulated process has been up for a second
            tau_ps: 250_000,
            frozen_polls_left: 0,
            read_step_ns: 0,
            clock_reads: 0,
            bulk_work_ns: 0,
            clock_events: Vec::new(),
            poll_interval: None,
            initial_hash_mb: None,
            initial_move_overhead: None,
            searches: Vec::new(),
            next_stop_at_poll: None,
            next_caller_limit_ns: None,
            teardown: false,
            process_exited: false,
            log: Vec::new(),
            log_enabled: false,
            fingerprint: 0,
            events_logged: 0,
            last_line_in: None,
            partial_line: String::new(),
            stdout_owner: None,
            stdout_depth: 0,
            stdout_lock_waits: 0,
            stdin: None,
            gui_waiting: false,
            gui_wait_for: WaitFor::default(),
            signal: None,
            in_should_stop: false,
            faults: FaultCounters::default(),
            stop_liveness_bound: 4096,
            liveness_violation: None,
            polls_since_teardown: 0,
            global_polls: 0,
            input_busy: None,
            input_thread: None,
            node_cap: u64::MAX,
            node_cap_hit: false,
            killed: false,
            on_output: None,
        }
    }

    pub fn note(&mut self, text: String) {
        self.log(Event::Note(text));
    }

    fn log(&mut self, e: Event) {
        // running fingerprint of the whole event sequence (order-sensitive)
        let mut h = self.fingerprint.rotate_left(5) ^ self.events_logged;
        let mut eat = |bytes: &[u8]| {
            for b in bytes {
                h ^= *b as u64;
                h = h.wrapping_mul(0x0000_0100_0000_01B3);
            }
        };
        match &e {
            Event::In(l) => {
                eat(b"I");
                eat(l.as_bytes())
            }
            Event::Eof => eat(b"E"),
            Event::Out(st, l) => {
                eat(&[b'O', *st]);
                // `bench` and `d perft` measure themselves with the real clock (std::time::Instant is
                // not behind the seam there): their wall-clock figures are not part of the execution
                let toks: Vec<&str> = l.split_whitespace().collect();
                if toks.len() == 4 && toks[1] == "nodes" && toks[3] == "nps" {
                    eat(toks[0].as_bytes());
                    eat(b" nodes");
                } else if l.starts_with("time taken: ") || l.starts_with("nps: ") {
                    eat(b"<wall clock>");
                } else {
                    eat(l.as_bytes())
                }
            }
            Event::Poll(a, b, c) => {
                eat(b"P");
                eat(&(*a as u64).to_le_bytes());
                eat(&b.to_le_bytes());
                eat(&c.to_le_bytes())
            }
            Event::Clock(a, b, t) => {
                eat(b"C");
                eat(&(*a as u64).to_le_bytes());
                eat(&b.to_le_bytes());
                eat(t.as_bytes())
            }
            Event::Go(a) => {
                eat(b"G");
                eat(&(*a as u64).to_le_bytes())
            }
            Event::StopSeen(a, b, c) => {
                eat(b"S");
                eat(&(*a as u64).to_le_bytes());
                eat(&b.to_le_bytes());
                eat(&c.to_le_bytes())
            }
            Event::Note(t) => {
                eat(b"N");
                eat(t.as_bytes())
            }
        }
        self.fingerprint = h;
        self.events_logged += 1;
        if self.log_enabled {
            self.log.push(e);
        }
    }
}

thread_local! {
    static SIM: RefCell<Option<Sim>> = const { RefCell::new(None) };
}

pub fn install(sim: Sim) {
    SIM.with(|s| *s.borrow_mut() = Some(sim));
}

pub fn uninstall() -> Option<Sim> {
    SIM.with(|s| s.borrow_mut().take())
}

pub fn with_sim<R>(f: impl FnOnce(&mut Sim) -> R) -> Option<R> {
    SIM.with(|s| match s.try_borrow_mut() {
        Ok(mut g) => g.as_mut().map(f),
        Err(_) => panic!("verif_seam: re-entrant access to simulator state (harness bug)"),
    })
}

/// Wake the GUI model if it is blocked (a scheduling point, so never called with SIM borrowed).
fn notify_gui_if_waiting() {
    let sig = with_sim(|s| {
        if s.gui_waiting {
            s.gui_waiting = false;
            s.signal.clone()
        } else {
            None
        }
    })
    .flatten();
    if let Some(sig) = sig {
        let g = sig.m.lock().unwrap();
        sig.cv.notify_all();
        drop(g);
    }
}

// ---- stdout / stderr ---------------------------------------------------------------------------

/// The real engine performs a `write` here and releases the stdout lock afterwards: the OS may run the
/// other thread between two writes, so every write is a scheduling point of the simulation (only in
/// the threaded world; the single-threaded world has nobody to switch to).
fn write_is_a_scheduling_point() {
    let threaded = with_sim(|s| s.stdin.is_some() && !s.process_exited).unwrap_or(false);
    if threaded {
        shuttle::thread::yield_now();
    }
}

pub fn out_partial(text: String) {
    write_is_a_scheduling_point();
    wait_for_stdout();
    let installed = with_sim(|s| s.partial_line.push_str(&text)).is_some();
    if !installed {
        use std::io::Write;
        let _ = write!(std::io::stdout(), "{text}");
    }
}

pub fn out_line(stream: u8, text: String) {
    write_is_a_scheduling_point();
    if stream == 0 {
        wait_for_stdout();
    }
    let mut notify = false;
    let installed = with_sim(|s| {
        let mut line = std::mem::take(&mut s.partial_line);
        line.push_str(&text);
        // one println! may carry several lines (it never does in the UCI path)
        for l in line.split('\n') {
            s.log(Event::Out(stream, l.to_string()));
            if let Some(mut obs) = s.on_output.take() {
                let mut view = SimView { now_ns: s.now_ns, searches: &mut s.searches, process_exited: s.process_exited };
                obs(&mut view, stream, l);
                s.on_output = Some(obs);
            }
        }
        notify = s.gui_waiting && s.gui_wait_for.bestmove && stream == 0 && line.starts_with("bestmove");
    })
    .is_some();
    if !installed {
        use std::io::Write;
        if stream == 0 {
            let _ = writeln!(std::io::stdout(), "{text}");
        } else {
            let _ = writeln!(std::io::stderr(), "{text}");
        }
        return;
    }
    if notify {
        notify_gui_if_waiting();
    }
}

// ---- H3: stdin ---------------------------------------------------------------------------------

pub enum Lines<I> {
    Real(I),
    Sim,
}

pub fn stdin_lines<I: Iterator<Item = std::io::Result<String>>>(real: I) -> Lines<I> {
    let simulated = with_sim(|s| s.stdin.is_some()).unwrap_or(false);
    if simulated {
        drop(real); // releases the real stdin lock
        Lines::Sim
    } else {
        Lines::Real(real)
    }
}

impl<I: Iterator<Item = std::io::Result<String>>> Iterator for Lines<I> {
    type Item = std::io::Result<String>;

    fn next(&mut self) -> Option<Self::Item> {
        match self {
            Lines::Real(i) => i.next(),
            Lines::Sim => loop {
                let me: usize = shuttle::thread::current().id().into();
                let step = with_sim(|s| {
                    s.input_busy = None;
                    s.input_thread = Some(me);
                    let mut src = s.stdin.take().expect("simulated stdin vanished");
                    let n = {
                        let mut core = SimCore { next_caller_limit_ns: &mut s.next_caller_limit_ns, now_ns: s.now_ns, searches: &mut s.searches, faults: &mut s.faults };
                        src.next(&mut core)
                    };
                    s.stdin = Some(src);
                    match &n {
                        Next::Line(l) => {
                            s.input_busy = Some((s.global_polls, l.clone()));
                            s.last_line_in = Some(l.clone());
                            s.log(Event::In(l.clone()))
                        }
                        Next::Eof => {
                            s.faults.eof += 1;
                            s.log(Event::Eof)
                        }
                        Next::Wait(w) => {
                            s.gui_waiting = true;
                            s.gui_wait_for = *w;
                        }
                    }
                    (n, s.signal.clone())
                })
                .expect("simulator vanished");
                match step {
                    (Next::Line(l), _) => return Some(Ok(l)),
                    (Next::Eof, _) => return None,
                    (Next::Wait(_), sig) => {
                        // Block on the simulated condvar until the output log / a poll wakes us.
                        // No scheduling point lies between the decision above and `wait`, so no
                        // wake-up can be lost.
                        let sig = sig.expect("GUI wait without a signal");
                        let g = sig.m.lock().unwrap();
                        let still = with_sim(|s| s.gui_waiting).unwrap_or(false);
                        if still {
                            let g = sig.cv.wait(g).unwrap();
                            drop(g);
                        } else {
                            drop(g);
                        }
                    }
                }
            },
        }
    }
}

// ---- H4: initial options -----------------------------------------------------------------------

pub fn initial_options(mut options: EngineOptions) -> EngineOptions {
    with_sim(|s| {
        if let Some(mb) = s.initial_hash_mb {
            options.hash_size = mb;
        }
        if let Some(ov) = s.initial_move_overhead {
            options.move_overhead = ov;
        }
    });
    options
}

// ---- H8 (+ epoch of H5): limits ----------------------------------------------------------------

pub fn limits(
    time_control: &TimeControl,
    soft_stop: Duration,
    hard_stop: Duration,
    player: Player,
    move_overhead: Duration,
) -> Epoch {
    let white = matches!(player, Player::White);
    with_sim(|s| {
        let id = s.searches.len();
        let mut rec = LimitsRec {
            kind: TcKind::Infinite,
            soft_ns: soft_stop.as_nanos() as u64,
            hard_ns: hard_stop.as_nanos() as u64,
            white_to_move: white,
            overhead_ns: move_overhead.as_nanos() as u64,
            remaining_ns: None,
            increment_ns: None,
            moves_to_go: None,
            movetime_ns: None,
        };
        match time_control {
            TimeControl::Infinite => {}
            TimeControl::ExactTime(t) => {
                rec.kind = TcKind::ExactTime;
                rec.movetime_ns = Some(t.as_nanos() as u64);
            }
            TimeControl::Clocks(c) => {
                rec.kind = TcKind::Clocks;
                let (rem, inc) = if white { (c.white_clock, c.white_increment) } else { (c.black_clock, c.black_increment) };
                rec.remaining_ns = rem.map(|d| d.as_nanos() as u64);
                rec.increment_ns = inc.map(|d| d.as_nanos() as u64);
                rec.moves_to_go = c.moves_to_go;
            }
        }
        let stop_at_poll = s.next_stop_at_poll.take();
        let pending_limit = s.next_caller_limit_ns.take();
        let now = s.now_ns;
        s.searches.push(SearchRec {
            id,
            epoch_ns: now,
            limits: rec,
            polls: 0,
            calls: 0,
            last_nodes: 0,
            stop_at_poll,
            first_stop: None,
            calls_after_stop: 0,
            nodes_after_stop: 0,
            forced_at: None,
            calls_after_forced: 0,
            max_nodes: 0,
            stop_handed_at_poll: None,
            // a remaining-clock limit binds only under C14's precondition (overhead <= R/2): with a
            // larger overhead the engine deliberately budgets from the overhead value instead
            // (with a larger overhead the engine deliberately budgets from the overhead value instead:
            // its hard limit is then at most half of max(R - overhead, overhead), so max(R, overhead)
            // is a limit that still binds)
            caller_deadline_ns: pending_limit.map(|(l, is_clock)| {
                let ov = move_overhead.as_nanos() as u64;
                let limit = if is_clock && ov.saturating_mul(2) > l { l.max(ov) } else { l };
                now.saturating_add(limit)
            }),
            polls_past_deadline: 0,
            calls_since_poll: 0,
            finished: false,
            finished_ns: None,
            max_poll_gap_ns: 0,
            last_poll_ns: now,
        });
        s.log(Event::Go(id));
        Epoch { id }
    })
    .unwrap_or(Epoch { id: NO_EPOCH })
}

// ---- H5: clock ---------------------------------------------------------------------------------

pub fn elapsed(epoch: &Epoch) -> Option<Duration> {
    if epoch.id == NO_EPOCH {
        return None;
    }
    with_sim(|s| {
        s.clock_reads += 1;
        if s.read_step_ns > 0 && s.frozen_polls_left == 0 {
            s.now_ns += s.read_step_ns;
        }
        s.searches.get(epoch.id).map(|r| Duration::from_nanos(s.now_ns - r.epoch_ns))
    })
    .flatten()
}

// ---- H9: bulk work (clearing / allocating the table) takes time ----------------------------------

/// Simulated cost of touching one table entry (16 bytes): ≈ 0.4 ns per byte on this class of machine.
pub const NS_PER_TABLE_ENTRY: u64 = 6;

pub fn bulk_work(entries: u64) {
    with_sim(|s| {
        if s.frozen_polls_left == 0 {
            let ns = entries.saturating_mul(NS_PER_TABLE_ENTRY);
            s.now_ns += ns;
            s.bulk_work_ns += ns;
        }
    });
}

// ---- H6: node tick, poll interval ----------------------------------------------------------------

pub fn poll_interval(shipped: u64) -> u64 {
    with_sim(|s| s.poll_interval).flatten().unwrap_or(shipped)
}

/// First call (outer): advance the clock by the work done, return true so that the hook calls the
/// shipped body once more (inner call, for which this returns false).
pub fn enter_should_stop(epoch: &Epoch, nodes: u64) -> bool {
    if epoch.id == NO_EPOCH {
        return false;
    }
    let mut kill = false;
    let outer = with_sim(|s| {
        if s.in_should_stop {
            s.in_should_stop = false;
            return false;
        }
        s.in_should_stop = true;
        // a search that examines this many nodes without ever consulting the stop flag can neither be
        // stopped nor time-limited (and would spin for ever inside the simulator)
        let starve_limit = (s.poll_interval.unwrap_or(10_000) * 50).max(200_000);
        if let Some(r) = s.searches.get_mut(epoch.id) {
            r.calls_since_poll += 1;
            if r.calls_since_poll > starve_limit {
                kill = true;
                if s.liveness_violation.is_none() {
                    s.liveness_violation = Some(format!(
                        "search #{} examined {} positions without consulting the stop flag once: the stop flag is ignored",
                        r.id, r.calls_since_poll
                    ));
                }
                s.killed = true;
                s.in_should_stop = false;
                return false;
            }
        }
        let frozen = s.frozen_polls_left > 0;
        let tau = s.tau_ps;
        let cap = s.node_cap;
        let mut advance = 0u64;
        if let Some(r) = s.searches.get_mut(epoch.id) {
            r.calls += 1;
            if nodes > r.last_nodes {
                if !frozen {
                    advance = ((nodes - r.last_nodes) as u128 * tau as u128 / 1000) as u64;
                }
                if r.first_stop.is_some() {
                    r.nodes_after_stop += nodes - r.last_nodes;
                }
                r.last_nodes = nodes;
            }
            if nodes > r.max_nodes {
                r.max_nodes = nodes;
            }
            if r.first_stop.is_some() {
                r.calls_after_stop += 1;
            }
            if r.forced_at.is_some() {
                r.calls_after_forced += 1;
            }
            if r.calls > cap {
                s.node_cap_hit = true;
                s.teardown = true;
            }
        }
        s.now_ns += advance;
        true
    })
    .unwrap_or(false);
    if kill {
        std::panic::panic_any(SimKill);
    }
    outer
}

pub fn leave_should_stop(epoch: &Epoch, nodes: u64, answer: bool) -> bool {
    with_sim(|s| {
        s.in_should_stop = false;
        if answer {
            let mut ev = None;
            if let Some(r) = s.searches.get_mut(epoch.id) {
                if r.first_stop.is_none() {
                    r.first_stop = Some((r.polls, nodes));
                    ev = Some(Event::StopSeen(r.id, r.polls, nodes));
                }
            }
            if let Some(e) = ev {
                s.log(e);
            }
        }
    });
    answer
}

// ---- H7: the stop flag -----------------------------------------------------------------------------

/// Called where the engine loads the stop flag.  Counts the poll, fires clock faults scheduled for
/// it, and answers true when a stop is injected at this poll (or the world is being torn down).
pub fn stop_poll(epoch: &Epoch) -> bool {
    if epoch.id == NO_EPOCH {
        return false;
    }
    let mut notify = false;
    let mut kill = false;
    let polling_thread: Option<usize> = if with_sim(|s| s.stdin.is_some()).unwrap_or(false) { Some(shuttle::thread::current().id().into()) } else { None };
    let forced = with_sim(|s| {
        let now_before = s.now_ns;
        let Some(r) = s.searches.get_mut(epoch.id) else { return false };
        r.polls += 1;
        r.calls_since_poll = 0;
        let (id, poll, nodes) = (r.id, r.polls, r.last_nodes);
        let mut forced = false;
        if let Some(k) = r.stop_at_poll {
            if poll >= k {
                forced = true;
            }
        }
        // a poll that saw the clock past the caller's limit must have been the last one
        if let Some(dl) = r.caller_deadline_ns {
            if r.polls_past_deadline >= 1 && s.liveness_violation.is_none() {
                s.liveness_violation = Some(format!(
                    "search #{id} polled again (poll {poll}) although its previous poll already saw the clock {} ms past the caller's time limit: expired limit ignored",
                    (now_before.saturating_sub(dl)) / 1_000_000
                ));
                s.teardown = true;
            }
            if now_before > dl {
                r.polls_past_deadline += 1;
            }
        }
        // liveness: the stop line was handed to the engine long ago and the search still polls
        if let Some(p) = r.stop_handed_at_poll {
            if poll > p + s.stop_liveness_bound && s.liveness_violation.is_none() {
                s.liveness_violation =
                    Some(format!("search #{id} still polling {} polls after `stop` was handed to the engine", poll - p));
                s.teardown = true;
            }
        }
        // liveness: every command handed to the input thread completes while the search thread
        // makes a bounded amount of progress (the fair scheduler guarantees the input thread steps)
        s.global_polls += 1;
        if s.input_thread == polling_thread {
            // the input thread itself is searching (`bench`): that is the command making progress
            if let Some(b) = &mut s.input_busy {
                b.0 = s.global_polls;
            }
        }
        if let Some((since, line)) = &s.input_busy {
            // (a search that runs *on* the input thread — `bench` — is that command making progress)
            if s.global_polls > since + s.stop_liveness_bound && s.liveness_violation.is_none() && s.input_thread != polling_thread {
                s.liveness_violation = Some(format!(
                    "the input thread has not finished `{}` after {} polls of search work",
                    line.split_whitespace().next().unwrap_or(""),
                    s.global_polls - since
                ));
                s.teardown = true;
            }
        }
        if s.frozen_polls_left > 0 {
            s.frozen_polls_left -= 1;
        }
        // clock faults scheduled for this poll
        let mut fired: Vec<ClockFault> = Vec::new();
        s.clock_events.retain(|e| {
            if e.search == id && e.poll == poll {
                fired.push(e.fault.clone());
                false
            } else {
                true
            }
        });
        for f in fired {
            match f {
                ClockFault::Stall { ns } => {
                    s.now_ns += ns;
                    s.faults.skipped_ns += ns;
                    s.faults.stalls += 1;
                    s.log(Event::Clock(id, poll, format!("stall {ns}ns")));
                }
                ClockFault::Jump { ns } => {
                    s.now_ns += ns;
                    s.faults.skipped_ns += ns;
                    s.faults.jumps += 1;
                    s.log(Event::Clock(id, poll, format!("jump {ns}ns")));
                }
                ClockFault::Freeze { polls } => {
                    s.frozen_polls_left = polls;
                    s.faults.freezes += 1;
                    s.log(Event::Clock(id, poll, format!("freeze {polls} polls")));
                }
            }
        }
        let now = s.now_ns;
        let r = &mut s.searches[epoch.id];
        let gap = now - r.last_poll_ns;
        if gap > r.max_poll_gap_ns {
            r.max_poll_gap_ns = gap;
        }
        r.last_poll_ns = now;
        let _ = now_before;
        s.log(Event::Poll(id, poll, nodes));
        if forced {
            let r = &mut s.searches[epoch.id];
            if r.forced_at.is_none() {
                r.forced_at = Some((poll, nodes));
                s.faults.forced_stops += 1;
            }
            if let Some((p, _)) = r.forced_at {
                if poll > p + KILL_AFTER_POLLS {
                    kill = true;
                }
            }
        }
        if s.teardown {
            if !forced {
                s.faults.teardown_stops += 1;
            }
            forced = true;
            s.polls_since_teardown += 1;
            if s.polls_since_teardown > KILL_AFTER_POLLS {
                kill = true;
            }
        }
        notify = s.gui_waiting && matches!(s.gui_wait_for.polls, Some((sid, n)) if sid == id && poll >= n);
        forced
    })
    .unwrap_or(false);
    if kill {
        // this search has ignored `KILL_AFTER_POLLS` consecutive "stop" answers
        with_sim(|s| {
            if s.liveness_violation.is_none() {
                s.liveness_violation = Some(format!("a search went on for {KILL_AFTER_POLLS} polls although every poll answered stop: the stop flag is ignored"));
            }
            s.killed = true;
        });
        std::panic::panic_any(SimKill);
    }
    if notify {
        // a GUI model waiting for "n polls of search work" re-evaluates its condition
        notify_gui_if_waiting();
    }
    forced
}

/// A search that is told to stop at every poll gets this many more polls before it is unwound.
pub const KILL_AFTER_POLLS: u64 = 500;
